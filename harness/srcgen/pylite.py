"""PyLite -> Gallina: a fail-closed translator for the small pure functions of pjplan.

The hand-written Coq models are tied to the code by the differential correspondence.  For the functions listed in
harness/srcgen/*_spec.py the tie is tighter: on every run this translator reads the function's *current source text*
(Python `ast`), emits a Gallina definition (gen/Src*.v) and the development proves the emitted definition equal to
the hand-written model for all inputs (coq/*/Src*Equiv.v).  A change of the code changes the emitted definition; the
equivalence proof then either still goes through (the rewrite was harmless) or breaks (the theorems about the model
are no longer theorems about this code).

What is supported is deliberately little; anything else raises Unsupported (fail closed - never a guess):

  statements   x = e | x op= e | if/elif/else | for x in <list> | for i in range(a, b) | while c (fuel from the spec)
               | continue | return e | raise E(...) | pass | docstring
  expressions  names, self.<field> (spec), int/float literals, None, True/False, + - * /, comparisons, `is None`,
               `is not None`, and/or/not, `k in d` / `d[k]` on association lists, conditional expression,
               calls and attribute reads listed in the spec (`calls`, `attrs`), list comprehensions over lists (pure)

Typing is a small static discipline with *narrowing* of Optional values: `if x is None: ... ` turns into a `match`
and in the other branch x stands for the value.  Every expression that may raise lives in the `res` monad of
Base/Prelude.v (`Ok | Err (= RuntimeError) | Crash k`).  All binders get globally fresh names, so nothing is captured.

The translator is part of the trusted base (it is ~350 lines, purely syntactic, and is itself exercised by the
correspondence: the emitted definitions are proved equal to the model that the differential run compares with the
implementation)."""
import ast


class Unsupported(Exception):
    pass


# ---- types: 'num' | 'Z' | 'bool' | 'nat' | ('option', T) | ('list', T) | ('fun', [A...], T, effectful) | ('assoc', K, V)
#             | ('rec', name)  | ('weekmap',) -----------------------------------------------------------------------------

def ty_str(t):
    if isinstance(t, str):
        return t
    if t[0] == 'option':
        return '(option %s)' % ty_str(t[1])
    if t[0] == 'list':
        return '(list %s)' % ty_str(t[1])
    if t[0] == 'assoc':
        return '(list (%s * %s))' % (ty_str(t[1]), ty_str(t[2]))
    if t[0] == 'weekmap':
        return '(list num)'
    if t[0] == 'rec':
        return t[1]
    if t[0] == 'prod':
        return '(%s)' % ' * '.join(ty_str(x) for x in t[1])
    if t[0] == 'fun':
        r = ty_str(t[2])
        if t[3]:
            r = '(res %s)' % r
        return '(%s)' % ' -> '.join([ty_str(a) for a in t[1]] + [r])
    raise Unsupported('type %r' % (t,))


class Tr:
    """One function translation."""

    def __init__(self, spec, ops):
        self.spec = spec
        self.ops = ops              # names of the number operations in the Coq section
        self.n = 0
        self.lifted = []
        self.nloops = 0
        self.ret = spec['ret']
        self.written = set()                            # heap fields this function writes (directly or through callees)
        self.aliased = set()                            # local names bound to a list that another name may share
        self.range_vars = set()                         # loop variables of `for i in range(a, b)` loops
        self.OBJ = spec.get('obj_type', 'obj')          # Coq type of an object reference
        self.GET = spec.get('heap_get', 'get')          # heap accessors
        self.UPD = spec.get('heap_upd', 'upd')

    def state_names(self):
        st = self.spec.get('state')
        if not st:
            return []
        return [st] if isinstance(st, str) else list(st)

    def state_value(self, env):
        names = self.state_names()
        vals = [env[n][0] for n in names]
        return vals[0] if len(vals) == 1 else '(%s)' % ', '.join(vals)

    def xmode(self):
        """`raise_as_value`: a RuntimeError is not `Err` but the value `Ok (state at the raise, None)`; a normal return is
        `Ok (state, Some v)` - the translation then says what a rejected call leaves behind"""
        return bool(self.spec.get('raise_as_value'))

    def rejected(self, env):
        return 'Ok (%s, XErr)' % self.state_value(env)

    def state_pattern(self, fresh_names):
        return fresh_names[0] if len(fresh_names) == 1 else '(%s)' % ', '.join(fresh_names)

    def H(self, env):
        """the Coq name of the heap as it is now (a state variable in functions that write the heap)"""
        h = self.spec.get('heap')
        return env[h][0] if h in env else h

    def fill(self, text, env):
        """placeholders of spec texts: $H the current heap, $F the fuel left for calls of recursive functions"""
        import re as _re
        text = _re.sub(r'\$\{(\w+)\}', lambda m: env[m.group(1)][0], text)
        return text.replace('$H', self.H(env) or '').replace('$F', self.rec_fuel or self.spec.get('fuel_name', 'fuel'))

    def fresh(self, base):
        self.n += 1
        return '%s_%d' % (base.replace('$', '').strip('_') or 'v', self.n)

    # ---- coercion -------------------------------------------------------------------------------
    def coerce(self, atom, t, want, where=''):
        if t == want:
            return atom
        if t == 'intlit' and want == 'num':
            if atom == '0':
                return self.ops['zero']
            if 'of_int' in self.ops:
                return '(%s %s)' % (self.ops['of_int'], atom)
            raise Unsupported('integer literal %s used as a number %s' % (atom, where))
        if t == 'intlit' and want == 'Z':
            return atom if not atom.startswith('-') else '(%s)' % atom
        if t == 'none' and isinstance(want, tuple) and want[0] == 'option':
            return 'None'
        if t == 'emptylist' and isinstance(want, tuple) and want[0] == 'list':
            return '[]'
        if isinstance(want, tuple) and want[0] == 'tasklike':
            # a parameter that goes through _to_list: a task, None, or a list of tasks / None entries
            loo = ('list', ('option', 'obj'))
            if t == 'obj':
                return '[Some %s]' % atom
            if t == ('option', 'obj'):
                return '[%s]' % atom
            if t == 'none':
                return '[]'
            return self.coerce(atom, t, loo, where)
        if isinstance(want, tuple) and want[0] == 'list' and isinstance(want[1], tuple) and want[1][0] == 'option' \
                and isinstance(t, tuple) and t[0] == 'list' and t[1] == want[1][1]:
            return '(map Some %s)' % atom
        if isinstance(want, tuple) and want[0] == 'option' and t != 'none':
            return '(Some %s)' % self.coerce(atom, t, want[1], where)
        raise Unsupported('cannot use a %s where a %s is expected %s' % (ty_str(t) if t not in ('intlit', 'none') else t,
                                                                         ty_str(want), where))

    # ---- expressions (CPS: k(atom, type) -> coq text of type res RET) ------------------------------------
    def expr(self, e, env, k):
        sp = self.spec
        self.stmt_env = env            # evaluating an expression does not change the state: any env seen here carries it
        if sp.get('expr_rewrites') and not isinstance(e, (ast.Constant, ast.Name)):
            # expressions whose meaning the spec gives outright (each one a stated convention): `text`: (coq template, type)
            txt = ast.unparse(e)
            if txt in sp['expr_rewrites']:
                tmpl, t = sp['expr_rewrites'][txt]
                return k(self.fill(tmpl, env), t)
        if isinstance(e, ast.BoolOp) and isinstance(e.op, ast.Or) and len(e.values) == 2 and sp.get('or_default'):
            # `x or d` with x an Optional datetime (never falsy when present): x if it is there, else d
            def with_first(a, ta):
                if ta != ('option', 'Z'):
                    raise Unsupported('`or` on a %s' % (ta,))
                v = self.fresh('v')
                return '(match %s with Some %s => %s | None => %s end)' % (
                    a, v, k(v, 'Z'), self.expr(e.values[1], env, lambda b, tb: k(self.coerce(b, tb, 'Z'), 'Z')))
            return self.expr(e.values[0], env, with_first)
        if isinstance(e, ast.Constant):
            if e.value is None:
                return k('None', 'none')
            if e.value is True or e.value is False:
                return k('true' if e.value else 'false', 'bool')
            if isinstance(e.value, int):
                return k(str(e.value), 'intlit')
            if isinstance(e.value, float) and e.value == 0.0:
                return k(self.ops['zero'], 'num')
            raise Unsupported('literal %r' % (e.value,))
        if isinstance(e, ast.Name):
            if e.id in env:
                return k(*env[e.id])
            if e.id in sp.get('names', {}):
                return k(*sp['names'][e.id])
            raise Unsupported('unknown name %s' % e.id)
        if isinstance(e, ast.Attribute):
            path = ast.unparse(e)
            if path in sp.get('state_fields', {}):
                return k(*env[sp['state_fields'][path][0]])
            if ('$field', path) in env:
                return k(*env[('$field', path)])
            if path in sp.get('fields', {}):
                return k(*sp['fields'][path])
            if e.attr in sp.get('obj_props', {}):
                fn, t, eff = sp['obj_props'][e.attr]

                def prop_read(a, ta):
                    if ta != self.OBJ:
                        raise Unsupported('property %s of a %s' % (path, ty_str(ta) if ta not in ('intlit', 'none') else ta))
                    return self._apply(self.fill(fn, env), [a], ('fun', [self.OBJ], t, eff), k)
                return self.expr(e.value, env, prop_read)
            if e.attr in sp.get('static_attrs', {}):
                # attribute that the function never writes: read from the static description of the objects
                fn, t = sp['static_attrs'][e.attr]

                def static_read(a, ta):
                    if ta != self.OBJ:
                        raise Unsupported('attribute %s of a %s' % (path, ta))
                    return k(self.fill(fn, env) % a, t)
                return self.expr(e.value, env, static_read)
            # attribute of a heap object: read from the heap parameter of the spec
            if e.attr in sp.get('obj_attrs', {}):
                fn, t = sp['obj_attrs'][e.attr]
                hv = self.H(env)

                def heap_read(a, ta):
                    if ta != self.OBJ:
                        raise Unsupported('attribute %s of a %s' % (path, ty_str(ta) if ta not in ('intlit', 'none') else ta))
                    return k('(%s (%s %s %s))' % (fn, self.GET, hv, a), t)
                return self.expr(e.value, env, heap_read)
            # attribute of a record value
            if e.attr in sp.get('attrs', {}):
                fn, rect, t = sp['attrs'][e.attr]
                return self.expr(e.value, env, lambda a, ta: self._attr(a, ta, rect, fn, t, k, path))
            raise Unsupported('attribute %s' % path)
        if isinstance(e, ast.UnaryOp) and isinstance(e.op, ast.USub) and isinstance(e.operand, ast.Constant) \
                and isinstance(e.operand.value, int):
            return k(str(-e.operand.value), 'intlit')
        if isinstance(e, ast.UnaryOp) and isinstance(e.op, ast.USub):
            def neg(a, ta):
                if ta != 'Z':
                    raise Unsupported('unary minus on a %s' % (ta,))
                return k('(- %s)' % a, 'Z')
            return self.expr(e.operand, env, neg)
        if isinstance(e, ast.BinOp):
            return self.expr(e.left, env, lambda a, ta: self.expr(e.right, env, lambda b, tb: self.binop(e.op, a, ta, b, tb, k)))
        if isinstance(e, ast.IfExp):
            # both branches are continued with k (duplication; the functions are small)
            return self.cond(e.test, env, lambda env1: self.expr(e.body, env1, k), lambda env2: self.expr(e.orelse, env2, k))
        if isinstance(e, ast.Subscript):
            key = ('$sub', ast.unparse(e.value), ast.unparse(e.slice))
            if key in env:
                return k(*env[key])
            return self.expr(e.value, env, lambda d, td: self.expr(e.slice, env, lambda i, ti: self.subscript(d, td, i, ti, k)))
        if isinstance(e, ast.Call):
            return self.call(e, env, k)
        if isinstance(e, ast.ListComp):
            return self.listcomp(e, env, k)
        if isinstance(e, ast.Dict) and not e.keys:
            return k('[]', 'emptylist')          # a dict used as a set of keys (spec: keysets)
        if isinstance(e, ast.List):
            if not e.elts:
                return k('[]', 'emptylist')
            if len(e.elts) == 1:
                return self.expr(e.elts[0], env, lambda a, ta: k('[%s]' % a, ('list', ta)))
            raise Unsupported('list literal with %d elements' % len(e.elts))
        if isinstance(e, (ast.Compare, ast.BoolOp)) or (isinstance(e, ast.UnaryOp) and isinstance(e.op, ast.Not)):
            if sp.get('pure_conditions'):
                try:
                    return k(self.pure_bool(e, env), 'bool')        # a condition used as a value: one boolean expression
                except Unsupported:
                    pass
            return self.cond(e, env, lambda env1: k('true', 'bool'), lambda env2: k('false', 'bool'))
        raise Unsupported('expression %s' % ast.dump(e)[:80])

    def _attr(self, a, ta, rect, fn, t, k, path):
        if ta != rect:
            raise Unsupported('attribute %s of a %s' % (path, ty_str(ta)))
        return k('(%s %s)' % (fn, a), t)

    def binop(self, op, a, ta, b, tb, k):
        o = self.ops
        if self.spec.get('none_arith') and (ta == ('option', 'Z') or tb == ('option', 'Z')):
            # None in arithmetic raises TypeError
            if ta == ('option', 'Z'):
                v = self.fresh('v')
                return '(match %s with None => Crash TypeError | Some %s => %s end)' % (a, v, self.binop(op, v, 'Z', b, tb, k))
            v = self.fresh('v')
            return '(match %s with None => Crash TypeError | Some %s => %s end)' % (b, v, self.binop(op, a, ta, v, 'Z', k))
        if isinstance(ta, tuple) and ta[0] == 'list' and isinstance(op, ast.Add):
            if isinstance(tb, tuple) and tb[0] == 'list' and tb[1] == ('option', ta[1]):
                return k('(%s ++ %s)' % (self.coerce(a, ta, tb), b), tb)        # tasks + [maybe a task]
            return k('(%s ++ %s)' % (a, self.coerce(b, tb, ta)), ta)
        if 'num' in (ta, tb):
            a2 = self.coerce(a, ta, 'num', 'in arithmetic')
            b2 = self.coerce(b, tb, 'num', 'in arithmetic')
            if isinstance(op, ast.Add):
                return k('(%s %s %s)' % (o['add'], a2, b2), 'num')
            if isinstance(op, ast.Sub):
                return k('(%s %s %s)' % (o['sub'], a2, b2), 'num')
            if isinstance(op, ast.Mult):
                return k('(%s %s %s)' % (o['mul'], a2, b2), 'num')
            if isinstance(op, ast.Div):
                q = self.fresh('q')
                return '(do %s <- %s %s %s; %s)' % (q, o['divide'], a2, b2, k(q, 'num'))
            raise Unsupported('number operator %s' % type(op).__name__)
        if ta in ('Z', 'intlit') and tb in ('Z', 'intlit') and 'Z' in (ta, tb):
            a2 = self.coerce(a, ta, 'Z')
            b2 = self.coerce(b, tb, 'Z')
            sym = {ast.Add: '+', ast.Sub: '-', ast.Mult: '*'}.get(type(op))
            if sym is None:
                raise Unsupported('integer operator %s' % type(op).__name__)
            return k('(%s %s %s)' % (a2, sym, b2), 'Z')
        if ta == 'intlit' and tb == 'intlit' and isinstance(op, (ast.Add, ast.Sub, ast.Mult)):
            return k(str(eval('%s %s %s' % (a, {ast.Add: '+', ast.Sub: '-', ast.Mult: '*'}[type(op)], b))), 'intlit')
        raise Unsupported('operator %s on %r and %r' % (type(op).__name__, ta, tb))

    def subscript(self, d, td, i, ti, k):
        if isinstance(td, tuple) and td[0] == 'weekmap':
            # the 7-entry dict {0..6: units} built by the constructor; modelled as a list read with nth
            return k('(nth (Z.to_nat %s) %s %s)' % (self.coerce(i, ti, 'Z'), d, self.ops['zero']), 'num')
        if isinstance(td, tuple) and td[0] == 'assoc':
            v = self.fresh('v')
            return '(match assoc_get %s %s %s with Some %s => %s | None => Crash KeyError end)' % (
                self.eqb(td[1]), d, self.coerce(i, ti, td[1]), v, k(v, td[2]))
        if isinstance(td, tuple) and td[0] == 'list' and ti in ('Z', 'intlit') and 'list_get' in self.ops:
            # lst[i] with Python's index rule (negative from the end, IndexError outside)
            v = self.fresh('elt')
            return '(do %s <- %s %s %s; %s)' % (v, self.ops['list_get'], d, self.coerce(i, ti, 'Z'), k(v, td[1]))
        raise Unsupported('subscript of a %s' % ty_str(td))

    def eqb(self, t):
        if t == 'Z':
            return 'Z.eqb'
        if t in ('nat', 'obj', 'wid'):
            return 'Nat.eqb'
        raise Unsupported('equality on %s' % ty_str(t))

    def call(self, e, env, k):
        sp = self.spec
        name = ast.unparse(e.func)
        # datetime(d.year, d.month, d.day, 0, 0, 0, 0)  = midnight of d's day
        if name == 'datetime' and len(e.args) >= 3:
            a = e.args
            base = [ast.unparse(x) for x in a[:3]]
            if all(isinstance(x, ast.Attribute) for x in a[:3]) and \
                    [x.attr for x in a[:3]] == ['year', 'month', 'day'] and \
                    len({ast.unparse(x.value) for x in a[:3]}) == 1 and \
                    all(isinstance(x, ast.Constant) and x.value == 0 for x in a[3:]) and not e.keywords:
                return self.expr(a[0].value, env, lambda d, td: k('(day_start %s)' % self.coerce(d, td, 'Z'), 'Z'))
            raise Unsupported('datetime(...) other than the midnight idiom: %s' % base)
        if name == 'timedelta':
            if len(e.keywords) == 1 and not e.args and e.keywords[0].arg == 'days':
                return self.expr(e.keywords[0].value, env, lambda d, td: k('(%s * DAY)' % self.coerce(d, td, 'Z'), 'Z'))
            if len(e.keywords) == 1 and not e.args and e.keywords[0].arg == 'hours' and 'hours_us' in self.ops:
                return self.expr(e.keywords[0].value, env, lambda h, th: k('(%s %s)' % (self.ops['hours_us'], self.coerce(h, th, 'num')), 'Z'))
            raise Unsupported('timedelta(...) other than days= / hours=')
        if name == 'id' and len(e.args) == 1 and not e.keywords and (self.spec.get('heap') or self.spec.get('obj_type')):
            # id(obj): the identity of a heap object is its number
            return self.expr(e.args[0], env, lambda a, ta: k(self.coerce(a, ta, self.OBJ), self.OBJ))
        if name == 'range' and len(e.args) == 3 and not e.keywords and ast.unparse(e.args[2]) == '-1' and ast.unparse(e.args[1]) == '-1':
            # range(hi, -1, -1): hi, hi-1, .., 0
            def down(hi, thi):
                return k('(map Z.of_nat (rev (seq 0 (Z.to_nat (%s + 1)))))' % self.coerce(hi, thi, 'Z'), ('list', 'Z'))
            return self.expr(e.args[0], env, down)
        if name == 'reversed' and len(e.args) == 1 and not e.keywords:
            def rev_(l, tl):
                if not (isinstance(tl, tuple) and tl[0] == 'list'):
                    raise Unsupported('reversed of a %s' % (tl,))
                return k('(rev %s)' % l, tl)
            return self.expr(e.args[0], env, rev_)
        if name == 'set' and not e.args and not e.keywords:
            return k('[]', 'emptylist')
        if name == 'set' and len(e.args) == 1 and not e.keywords:
            # a set built from a list: the list of its distinct elements (first occurrences); membership and len agree
            def as_set(l, tl):
                if tl == ('list', 'obj') or tl == ('list', 'nat'):
                    return k('(nodup Nat.eq_dec %s)' % l, tl)
                if tl == ('list', 'Z'):
                    return k('(nodup Z.eq_dec %s)' % l, tl)
                raise Unsupported('set(...) of %s' % (ty_str(tl) if isinstance(tl, tuple) else tl))
            return self.expr(e.args[0], env, as_set)
        if name == 'len' and len(e.args) == 1 and not e.keywords:
            def length(l, tl):
                if not (isinstance(tl, tuple) and tl[0] == 'list'):
                    raise Unsupported('len of %s' % (ty_str(tl) if isinstance(tl, tuple) else tl))
                return k('(Z.of_nat (length %s))' % l, 'Z')
            return self.expr(e.args[0], env, length)
        if isinstance(e.func, ast.Attribute) and e.func.attr == 'intersection' and len(e.args) == 1 and not e.keywords:
            def inter(a, ta):
                def inter2(b, tb):
                    if ta != tb or ta not in (('list', 'Z'), ('list', 'obj')):
                        raise Unsupported('intersection of %r and %r' % (ta, tb))
                    return k('(filter (fun x_ => existsb (%s x_) %s) %s)' % (self.eqb(ta[1]), b, a), ta)
                return self.expr(e.args[0], env, inter2)
            return self.expr(e.func.value, env, inter)
        if isinstance(e.func, ast.Attribute) and e.func.attr == 'copy' and not e.args and not e.keywords:
            def copied(l, tl):
                if not (isinstance(tl, tuple) and tl[0] == 'list'):
                    raise Unsupported('.copy() of a %s' % (tl,))
                return k(l, tl)                     # values are immutable here: a copy of a list is the list
            return self.expr(e.func.value, env, copied)
        if isinstance(e.func, ast.Attribute) and e.func.attr == 'index' and len(e.args) == 1 and not e.keywords \
                and 'list_index' in self.ops:
            def indexed(l, tl):
                if tl != ('list', 'obj'):
                    raise Unsupported('.index() on a %s' % (tl,))

                def with_item(x, tx):
                    v = self.fresh('ix')
                    if tx == ('option', 'obj'):
                        # None is never an element of a list of tasks: list.index(None) raises ValueError
                        y = self.fresh('y')
                        return '(match %s with None => Crash ValueError | Some %s => (do %s <- %s %s %s; %s) end)' % (
                            x, y, v, self.ops['list_index'], l, y, k(v, 'Z'))
                    return '(do %s <- %s %s %s; %s)' % (v, self.ops['list_index'], l, self.coerce(x, tx, 'obj'), k(v, 'Z'))
                return self.expr(e.args[0], env, with_item)
            return self.expr(e.func.value, env, indexed)
        if name == 'next' and len(e.args) == 1 and not e.keywords and isinstance(e.args[0], ast.GeneratorExp):
            # next(x for x in L if c): the first element of L satisfying c, StopIteration when there is none
            g = e.args[0]
            if len(g.generators) != 1 or not isinstance(g.generators[0].target, ast.Name) or len(g.generators[0].ifs) != 1 \
                    or not (isinstance(g.elt, ast.Name) and g.elt.id == g.generators[0].target.id):
                raise Unsupported('next(...) of this generator expression')
            gen = g.generators[0]

            def first(l, tl):
                if not (isinstance(tl, tuple) and tl[0] == 'list'):
                    raise Unsupported('next over a %s' % (tl,))
                x = self.fresh(gen.target.id)
                env2 = dict(env)
                env2[gen.target.id] = (x, tl[1])
                v = self.fresh('found')
                return '(match find (fun %s => %s) %s with None => Crash StopIteration | Some %s => %s end)' % (
                    x, self.pure_bool(gen.ifs[0], env2), l, v, k(v, tl[1]))
            return self.expr(gen.iter, env, first)
        if name in self.spec.get('self_calls', ()):
            # a call of the function being translated: one unit of fuel less
            tf = self.spec['self_type']
            return self.args(list(e.args), tf[1], env, lambda atoms: self._apply(
                '%s %s %s' % (self.spec['coq_name'], self.rec_fuel, self.H(env)), atoms, tf, k))
        if name in ('min', 'max') and self.spec.get('z_minmax') and not e.keywords and len(e.args) >= 1:
            zf = 'Z.' + name
            if len(e.args) == 1:
                # max(list): ValueError on an empty list
                def of_list(l, tl):
                    if tl != ('list', 'Z'):
                        raise Unsupported('%s of a %s' % (name, tl))
                    x, xs = self.fresh('x'), self.fresh('xs')
                    return '(match %s with [] => Crash ValueError | %s :: %s => %s end)' % (
                        l, x, xs, k('(fold_left %s %s %s)' % (zf, xs, x), 'Z'))
                return self.expr(e.args[0], env, of_list)

            def many(i, acc):
                if i == len(e.args):
                    out = acc[0]
                    for nxt_ in acc[1:]:
                        out = '(%s %s %s)' % (zf, out, nxt_)
                    return k(out, 'Z')

                def one(a, ta):
                    if ta == ('option', 'Z'):
                        v = self.fresh('v')       # comparing None with a value raises TypeError
                        return '(match %s with None => Crash TypeError | Some %s => %s end)' % (a, v, many(i + 1, acc + [v]))
                    return many(i + 1, acc + [self.coerce(a, ta, 'Z')])
                return self.expr(e.args[i], env, one)
            return many(0, [])
        if name == 'sum' and len(e.args) == 1 and not e.keywords and 'sum_opts' in self.ops:
            def summed(l, tl):
                v = self.fresh('s')
                if tl == ('list', ('option', 'Z')):
                    return '(do %s <- %s %s; %s)' % (v, self.ops['sum_opts'], l, k(v, 'Z'))
                if tl == ('list', 'Z'):
                    return k('(fold_right Z.add 0 %s)' % l, 'Z')
                raise Unsupported('sum of a %s' % (tl,))
            return self.expr(e.args[0], env, summed)
        if name in ('min', 'max') and len(e.args) == 2 and not e.keywords:
            f = self.ops[name]
            return self.expr(e.args[0], env, lambda a, ta: self.expr(e.args[1], env, lambda b, tb: k(
                '(%s %s %s)' % (f, self.coerce(a, ta, 'num'), self.coerce(b, tb, 'num')), 'num')))
        if name == 'sum' and len(e.args) == 2:
            return self.expr(e.args[0], env, lambda l, tl: self.expr(e.args[1], env, lambda z0, tz: self._sum(l, tl, z0, tz, k)))
        calls = sp.get('calls', {})
        target = None
        recv = None
        if name in calls:
            target = calls[name]
        elif isinstance(e.func, ast.Attribute) and ('.' + e.func.attr) in calls:
            target = calls['.' + e.func.attr]
            recv = e.func.value
        if target is None:
            raise Unsupported('call of %s' % name)
        kind = target[0]
        if kind == 'custom':
            return target[1](self, e, env, k)
        if kind == 'apply_recv':
            # receiver is a function value; python args at the given indices are passed
            _, idx = target

            def with_recv(f, tf):
                if not (isinstance(tf, tuple) and tf[0] == 'fun'):
                    raise Unsupported('call of .%s on a %s' % (e.func.attr, ty_str(tf)))
                return self.args([e.args[i] for i in idx], tf[1], env, lambda atoms: self._apply(f, atoms, tf, k))
            return self.expr(recv, env, with_recv)
        if kind == 'apply':
            # a Coq function (or parameter) applied to python args at the given indices
            _, fn, tf, idx = target
            if e.keywords or len(e.args) <= max(idx, default=-1):
                raise Unsupported('call of %s with %d positional arguments (the spec passes arguments %s on)' % (name, len(e.args), idx))
            return self.args([e.args[i] for i in idx], tf[1], env, lambda atoms: self._apply(self.fill(fn, env), atoms, tf, k))
        if kind == 'recv_fn':
            # method on a typed receiver translated to a Coq function taking the receiver first
            _, fn, tf, idx = target
            return self.expr(recv, env, lambda r, tr_: self.args(
                [e.args[i] for i in idx], tf[1][1:], env,
                lambda atoms: self._apply(self.fill(fn, env), [self.coerce(r, tr_, tf[1][0])] + atoms, tf, k)))
        raise Unsupported('call kind %s' % kind)

    def _sum(self, l, tl, z0, tz, k):
        if tl != ('list', 'num'):
            raise Unsupported('sum over %s' % ty_str(tl))
        return k('(fold_left %s %s %s)' % (self.ops['add'], l, self.coerce(z0, tz, 'num')), 'num')

    def args(self, exprs, types, env, k, acc=None):
        acc = acc or []
        if not exprs:
            return k(acc)
        want = types[len(acc)]
        return self.expr(exprs[0], env, lambda a, ta: self.args(exprs[1:], types, env, k, acc + [self.coerce(a, ta, want, 'as an argument')]))

    def _apply(self, f, atoms, tf, k):
        app = '(%s %s)' % (f, ' '.join(atoms)) if atoms else f
        if tf[3]:
            v = self.fresh('r')
            if self.xmode():
                rej = self.rejected(self.stmt_env)        # the callee is pure: the state is that of the statement
                c_ = self.fresh('c')
                return '(match %s with Ok %s => %s | Err => %s | Crash %s => Crash %s end)' % (app, v, k(v, tf[2]), rej, c_, c_)
            return '(do %s <- %s; %s)' % (v, app, k(v, tf[2]))
        return k(app, tf[2])

    def listcomp(self, e, env, k):
        if len(e.generators) != 1 or e.generators[0].is_async or not isinstance(e.generators[0].target, ast.Name):
            raise Unsupported('list comprehension shape')
        g = e.generators[0]
        if not g.ifs and isinstance(e.elt, ast.Name) and e.elt.id == g.target.id:
            return self.expr(g.iter, env, lambda l, tl: k(l, tl) if isinstance(tl, tuple) and tl[0] == 'list' else self._no_list(tl))

        def with_iter(l, tl):
            if not (isinstance(tl, tuple) and tl[0] == 'list'):
                raise Unsupported('comprehension over %s' % ty_str(tl))
            x = self.fresh(g.target.id)
            env2 = dict(env)
            env2[g.target.id] = (x, tl[1])
            if len(g.ifs) == 1 and isinstance(g.ifs[0], ast.Compare) and len(g.ifs[0].ops) == 1 \
                    and isinstance(g.ifs[0].ops[0], ast.IsNot) and isinstance(g.ifs[0].comparators[0], ast.Constant) \
                    and g.ifs[0].comparators[0].value is None and ast.unparse(g.ifs[0].left) == ast.unparse(e.elt):
                # [f(x) for x in L if f(x) is not None]: the values that are there, in order
                body, tb = self.pure(e.elt, env2)
                if isinstance(tb, tuple) and tb[0] == 'option':
                    return k('(somes (map (fun %s => %s) %s))' % (x, body, l), ('list', tb[1]))
            src = l
            for c in g.ifs:
                src = '(filter (fun %s => %s) %s)' % (x, self.pure_bool(c, env2), src)
            body, tb = self.pure(e.elt, env2)
            return k('(map (fun %s => %s) %s)' % (x, body, src), ('list', tb))
        return self.expr(g.iter, env, with_iter)

    def _no_list(self, tl):
        raise Unsupported('comprehension over %s' % (ty_str(tl) if tl not in ('intlit', 'none') else tl))

    def pure(self, e, env):
        """An expression that cannot raise, as (text, type); fails closed when the translation needs the monad."""
        box = []
        marker = '\x00'

        def k(a, t):
            box.append((a, t))
            return marker
        out = self.expr(e, env, k)
        if out != marker or len(box) != 1:
            raise Unsupported('expression is not pure: %s' % ast.unparse(e))
        return box[0]

    def pure_bool(self, e, env):
        """A condition as a Coq bool expression (no narrowing inside)."""
        if isinstance(e, ast.BoolOp):
            parts = [self.pure_bool(v, env) for v in e.values]
            op = ' && ' if isinstance(e.op, ast.And) else ' || '
            return '(' + op.join(parts) + ')'
        if isinstance(e, ast.UnaryOp) and isinstance(e.op, ast.Not):
            return '(negb %s)' % self.pure_bool(e.operand, env)
        if isinstance(e, ast.Compare) and len(e.ops) == 1 and isinstance(e.ops[0], (ast.Is, ast.IsNot)) \
                and isinstance(e.comparators[0], ast.Constant) and e.comparators[0].value is None:
            a, ta = self.pure(e.left, env)
            if not (isinstance(ta, tuple) and ta[0] == 'option'):
                raise Unsupported('`is None` on a %s inside a comprehension' % (ta,))
            yes, no_ = ('true', 'false') if isinstance(e.ops[0], ast.Is) else ('false', 'true')
            return '(match %s with None => %s | Some _ => %s end)' % (a, yes, no_)
        if isinstance(e, ast.Compare) and len(e.ops) == 1:
            a, ta = self.pure(e.left, env)
            b, tb = self.pure(e.comparators[0], env)
            return self.compare(e.ops[0], a, ta, b, tb)
        a, ta = self.pure(e, env)
        if ta != 'bool':
            raise Unsupported('truth value of a %s' % (ta,))
        return a

    def compare(self, op, a, ta, b, tb):
        o = self.ops
        if isinstance(ta, tuple) and ta[0] == 'rec' and ta == tb and isinstance(op, (ast.Eq, ast.NotEq)):
            eq = '(%s %s %s)' % (self.spec['rec_eqb'][ta[1]], a, b)
            return eq if isinstance(op, ast.Eq) else '(negb %s)' % eq
        if 'num' in (ta, tb):
            a2 = self.coerce(a, ta, 'num', 'in a comparison')
            b2 = self.coerce(b, tb, 'num', 'in a comparison')
            if isinstance(op, ast.Lt):
                return '(%s %s %s)' % (o['ltb'], a2, b2)
            if isinstance(op, ast.Gt):
                return '(%s %s %s)' % (o['ltb'], b2, a2)
            if isinstance(op, ast.Eq) and b2 == o['zero']:
                return '(%s %s)' % (o['is0'], a2)
            if isinstance(op, ast.LtE) and 'leb' in o:
                return '(%s %s %s)' % (o['leb'], a2, b2)
            if isinstance(op, ast.GtE) and 'leb' in o:
                return '(%s %s %s)' % (o['leb'], b2, a2)
            raise Unsupported('number comparison %s' % type(op).__name__)
        opt_ids = (('option', 'obj'), ('option', 'wid'), ('option', 'nat'), 'obj', 'wid', 'nat', 'none')
        if isinstance(op, (ast.Eq, ast.NotEq, ast.Is, ast.IsNot)) and ta in opt_ids and tb in opt_ids \
                and (isinstance(ta, tuple) or isinstance(tb, tuple)):
            # identities that may be None: compared as options of numbers
            want = ta if isinstance(ta, tuple) else tb
            eq = '(onat_eqb %s %s)' % (self.coerce(a, ta, want), self.coerce(b, tb, want))
            return eq if isinstance(op, (ast.Eq, ast.Is)) else '(negb %s)' % eq
        if ta in ('nat', 'obj', 'wid') and tb == ta and isinstance(op, (ast.Eq, ast.NotEq, ast.Is, ast.IsNot)):
            # objects compared with == (no __eq__ defined: identity), modelled as numbers
            eq = '(Nat.eqb %s %s)' % (a, b)
            return eq if isinstance(op, (ast.Eq, ast.Is)) else '(negb %s)' % eq
        if ta in ('Z', 'intlit') and tb in ('Z', 'intlit'):
            a2 = self.coerce(a, ta, 'Z')
            b2 = self.coerce(b, tb, 'Z')
            sym = {ast.Lt: '<?', ast.LtE: '<=?', ast.Gt: '>?', ast.GtE: '>=?', ast.Eq: '=?'}.get(type(op))
            if isinstance(op, ast.NotEq):
                return '(negb (%s =? %s))' % (a2, b2)
            if sym is None:
                raise Unsupported('integer comparison %s' % type(op).__name__)
            return '(%s %s %s)' % (a2, sym, b2)
        raise Unsupported('comparison of %r and %r' % (ta, tb))

    # ---- conditions with narrowing ------------------------------------------------------------------
    def cond(self, e, env, kt, kf):
        self.stmt_env = env
        if self.spec.get('expr_rewrites') and ast.unparse(e) in self.spec['expr_rewrites']:
            tmpl, t = self.spec['expr_rewrites'][ast.unparse(e)]
            if t != 'bool':
                raise Unsupported('truth value of a %s' % (t,))
            return '(if %s then %s else %s)' % (self.fill(tmpl, env), kt(env), kf(env))
        if isinstance(e, ast.BoolOp) and isinstance(e.op, ast.And):
            if len(e.values) == 1:
                return self.cond(e.values[0], env, kt, kf)
            rest = ast.BoolOp(op=ast.And(), values=e.values[1:])
            return self.cond(e.values[0], env, lambda env1: self.cond(rest, env1, kt, kf), kf)
        if isinstance(e, ast.BoolOp) and isinstance(e.op, ast.Or):
            if len(e.values) == 1:
                return self.cond(e.values[0], env, kt, kf)
            rest = ast.BoolOp(op=ast.Or(), values=e.values[1:])
            return self.cond(e.values[0], env, kt, lambda env2: self.cond(rest, env2, kt, kf))
        if isinstance(e, ast.UnaryOp) and isinstance(e.op, ast.Not):
            return self.cond(e.operand, env, kf, kt)
        if isinstance(e, ast.Compare) and len(e.ops) == 2 and isinstance(e.comparators[0], ast.Name):
            # a < b < c  with a plain name in the middle: (a < b) and (b < c)
            both = ast.BoolOp(op=ast.And(), values=[
                ast.Compare(left=e.left, ops=[e.ops[0]], comparators=[e.comparators[0]]),
                ast.Compare(left=e.comparators[0], ops=[e.ops[1]], comparators=[e.comparators[1]])])
            return self.cond(both, env, kt, kf)
        if isinstance(e, ast.Compare) and len(e.ops) == 1:
            op, l, r = e.ops[0], e.left, e.comparators[0]
            if isinstance(op, (ast.Is, ast.IsNot)) and isinstance(r, ast.Constant) and r.value is None:
                k_none, k_some = (kt, kf) if isinstance(op, ast.Is) else (kf, kt)
                return self.is_none(l, env, k_none, k_some)
            if isinstance(op, (ast.In, ast.NotIn)):
                k_in, k_out = (kt, kf) if isinstance(op, ast.In) else (kf, kt)
                return self.expr(r, env, lambda d, td: self.expr(l, env, lambda i, ti: self.member(e, d, td, i, ti, env, k_in, k_out)))
            return self.expr(l, env, lambda a, ta: self.expr(r, env, lambda b, tb: '(if %s then %s else %s)' % (
                self.compare(op, a, ta, b, tb), kt(env), kf(env))))
        return self.expr(e, env, lambda a, ta: self._truth(a, ta, env, kt, kf))

    def _truth(self, a, ta, env, kt, kf):
        if ta == 'Z' and self.spec.get('int_truth'):
            # truth value of an integer (a length): non-zero
            return '(if (%s =? 0) then %s else %s)' % (a, kf(env), kt(env))
        if ta == ('option', 'Z') and self.spec.get('or_default'):
            # truth value of an Optional datetime: None is false, a datetime is never false
            return '(match %s with None => %s | Some _ => %s end)' % (a, kf(env), kt(env))
        if ta != 'bool':
            raise Unsupported('truth value of a %s' % (ta,))
        return '(if %s then %s else %s)' % (a, kt(env), kf(env))

    def is_none(self, l, env, k_none, k_some):
        def go(a, ta):
            if ta == 'none':
                return k_none(env)
            if not (isinstance(ta, tuple) and ta[0] == 'option'):
                return k_some(env)           # statically known to carry a value (narrowed before)
            v = self.fresh((l.id if isinstance(l, ast.Name) else 'x') + '_v')
            env2 = dict(env)
            key = l.id if isinstance(l, ast.Name) else ast.unparse(l)
            if isinstance(l, ast.Name) or key in self.spec.get('fields', {}):
                env2[key] = (v, ta[1])
                if not isinstance(l, ast.Name):
                    env2[('$field', key)] = (v, ta[1])
            elif isinstance(l, ast.Attribute) and isinstance(l.value, ast.Name) and \
                    (not self.spec.get('state') or self.spec.get('heap') in self.state_names()):
                # an attribute of a heap object read twice without a write in between (the heap is read-only here)
                env2[('$field', key)] = (v, ta[1])
            return '(match %s with None => %s | Some %s => %s end)' % (a, k_none(env), v, k_some(env2))
        key = ast.unparse(l)
        if ('$field', key) in env:
            return go(*env[('$field', key)])
        return self.expr(l, env, go)

    def member(self, e, d, td, i, ti, env, k_in, k_out):
        l, r = e.left, e.comparators[0]
        if isinstance(td, tuple) and td[0] == 'assoc':
            v = self.fresh('hit')
            env2 = dict(env)
            env2[('$sub', ast.unparse(r), ast.unparse(l))] = (v, td[2])
            return '(match assoc_get %s %s %s with Some %s => %s | None => %s end)' % (
                self.eqb(td[1]), d, self.coerce(i, ti, td[1]), v, k_in(env2), k_out(env))
        if isinstance(td, tuple) and td[0] == 'list' and ti == ('option', td[1]):
            # None is never an element of a list of tasks
            y = self.fresh('y')
            return '(match %s with None => %s | Some %s => (if existsb (%s %s) %s then %s else %s) end)' % (
                i, k_out(env), y, self.eqb(td[1]), y, d, k_in(env), k_out(env))
        if isinstance(td, tuple) and td[0] == 'list' and ti == 'none':
            return k_out(env)
        if isinstance(td, tuple) and td[0] == 'list':
            return '(if existsb (%s %s) %s then %s else %s)' % (self.eqb(td[1]), self.coerce(i, ti, td[1]), d, k_in(env), k_out(env))
        raise Unsupported('membership in a %s' % ty_str(td))

    # ---- statements ---------------------------------------------------------------------------------
    def mutator_of(self, node):
        """(state variable, translated function, indices of the python args) when `node` is a call that changes a state
        object of the spec (`mutators`: {'obj.method': (state name, coq function, arg types)})"""
        if isinstance(node, ast.Call):
            return self.spec.get('mutators', {}).get(ast.unparse(node.func))
        return None

    def after_write(self, env, newheap):
        """the environment after the heap changed: what was read from the old heap is forgotten"""
        env2 = {k: v for k, v in env.items() if not (isinstance(k, tuple) and k[0] in ('$field', '$sub'))}
        env2[self.spec['heap']] = (newheap, self.spec.get('heap_type', 'heap'))
        return env2

    def heap_write(self, s, env, nxt):
        """statements that change the heap: `x.__fld = e`, `x.__lst.remove(y)`, `x.__lst.append(y)`, `x._method(args)` for
        the translated methods named in the spec (`method_mutators`); None when `s` is none of them"""
        sp = self.spec
        writes = sp.get('obj_writes', {})
        if not writes and not sp.get('method_mutators') and not sp.get('prop_setters') and not sp.get('self_mutators'):
            return None
        hname = sp['heap']
        # `x.prop = e` where prop is a property whose setter is translated: the setter's function, heap in and out
        if isinstance(s, ast.Assign) and len(s.targets) == 1 and isinstance(s.targets[0], ast.Attribute) \
                and s.targets[0].attr in sp.get('prop_setters', {}):
            tgt = s.targets[0]
            fn, vtype = sp['prop_setters'][tgt.attr]
            self.written |= set(sp.get('mutator_writes', {}).get(tgt.attr, ['*']))

            def with_target(x, tx):
                def call_setter(x1):
                    def with_value(v, tv):
                        h2 = self.fresh(hname)
                        if self.xmode():
                            r_ = self.fresh('acc')
                            env_after = self.after_write(env, h2)
                            kx = self.fresh('k')
                            return "(do '(%s, %s) <- %s %s %s %s; match %s with XErr => %s | XRaise %s => Ok (%s, XRaise %s) | XRet _ => %s end)" % (
                                h2, r_, self.fill(fn, env), self.H(env), x1, self.coerce(v, tv, vtype, 'as the assigned value'),
                                r_, self.rejected(env_after), kx, self.state_value(env_after), kx, nxt(env_after))
                        return "(do '(%s, _) <- %s %s %s %s; %s)" % (h2, self.fill(fn, env), self.H(env), x1, self.coerce(v, tv, vtype, 'as the assigned value'),
                                                                     nxt(self.after_write(env, h2)))
                    return self.expr(s.value, env, with_value)
                if tx == ('option', 'obj'):
                    # None.prop = e raises AttributeError
                    y = self.fresh('recv')
                    return '(match %s with None => Crash AttributeError | Some %s => %s end)' % (x, y, call_setter(y))
                if tx != self.OBJ:
                    raise Unsupported('assignment to %s of a %s' % (ast.unparse(tgt), tx))
                return call_setter(x)
            return self.expr(tgt.value, env, with_target)
        # `self.method(args, kw=...)` where the method of this class is translated (heap in and out)
        if isinstance(s, ast.Expr) and isinstance(s.value, ast.Call) and isinstance(s.value.func, ast.Attribute) \
                and isinstance(s.value.func.value, ast.Name) and s.value.func.value.id == 'self' \
                and s.value.func.attr in sp.get('self_mutators', {}):
            call = s.value
            fn, formals = sp['self_mutators'][call.func.attr]
            self.written |= set(sp.get('mutator_writes', {}).get(call.func.attr, ['*']))
            given = {}
            if len(call.args) > len(formals):
                raise Unsupported('too many arguments in %s' % ast.unparse(call))
            for (fname, _), a in zip(formals, call.args):
                given[fname] = a
            for kw in call.keywords:
                if kw.arg is None or kw.arg in given or kw.arg not in [f for f, _ in formals]:
                    raise Unsupported('keyword %s in %s' % (kw.arg, ast.unparse(call)))
                given[kw.arg] = kw.value
            exprs = [given.get(fname, ast.Constant(value=None)) for fname, _ in formals]

            def with_all(atoms):
                h2 = self.fresh(hname)
                if self.xmode():
                    r_ = self.fresh('acc')
                    env_after = self.after_write(env, h2)
                    kx = self.fresh('k')
                    return "(do '(%s, %s) <- %s %s; match %s with XErr => %s | XRaise %s => Ok (%s, XRaise %s) | XRet _ => %s end)" % (
                        h2, r_, self.fill(fn, env), ' '.join(atoms), r_, self.rejected(env_after), kx, self.state_value(env_after), kx, nxt(env_after))
                return "(do '(%s, _) <- %s %s; %s)" % (h2, self.fill(fn, env), ' '.join(atoms), nxt(self.after_write(env, h2)))
            return self.args(exprs, [t for _, t in formals], env, with_all)
        if isinstance(s, ast.Assign) and len(s.targets) > 1 and all(
                isinstance(t, ast.Attribute) and t.attr in writes and isinstance(t.value, ast.Name) for t in s.targets):
            # a.x = a.y = e: e once, then the targets from left to right
            tmp = '$multi%d' % self.n
            stmts = [ast.Assign(targets=[t], value=ast.Name(id=tmp, ctx=ast.Load())) for t in s.targets]

            def chain(i, env1):
                if i == len(stmts):
                    return nxt(env1)
                return self.heap_write(stmts[i], env1, lambda env2: chain(i + 1, env2))
            def got(v, tv):
                if tv in ('none', 'intlit'):
                    env1 = dict(env)
                    env1[tmp] = (v, tv)
                    return chain(0, env1)
                return self.bind(tmp, v, tv, env, lambda env1: chain(0, env1))
            return self.expr(s.value, env, got)
        if isinstance(s, ast.Assign) and len(s.targets) == 1 and isinstance(s.targets[0], ast.Attribute) \
                and s.targets[0].attr in writes:
            tgt = s.targets[0]
            setter = writes[tgt.attr]
            ftype = sp['obj_attrs'][tgt.attr][1]
            self.written.add(tgt.attr)

            def with_obj(x, tx):
                if tx != self.OBJ:
                    raise Unsupported('assignment to %s of a %s' % (ast.unparse(tgt), tx))

                def with_val(v, tv):
                    h2 = self.fresh(hname)
                    env_after = self.after_write(env, h2)
                    if isinstance(tgt.value, ast.Name) and sp.get('remember_writes') and tv not in ('none', 'intlit', 'emptylist') \
                            and not v.startswith('('):
                        # a read of the same attribute of the same name, before anything else is written, sees this value
                        env_after[('$field', ast.unparse(tgt))] = (v, tv)
                    return '(let %s := %s %s %s (%s %s) in %s)' % (h2, self.UPD, self.H(env), x, setter, self.coerce(v, tv, ftype), nxt(env_after))

                def named(v, tv):
                    if v.startswith('(') and sp.get('remember_writes'):
                        nm = self.fresh('w')
                        return '(let %s := %s in %s)' % (nm, v, with_val(nm, tv))
                    return with_val(v, tv)
                return self.expr(s.value, env, named)
            return self.expr(tgt.value, env, with_obj)
        if isinstance(s, ast.Assign) and len(s.targets) == 1 and isinstance(s.targets[0], ast.Subscript) \
                and isinstance(s.targets[0].value, ast.Attribute) and s.targets[0].value.attr in writes \
                and isinstance(s.targets[0].slice, ast.Slice) and s.targets[0].slice.lower is None \
                and s.targets[0].slice.upper is None and s.targets[0].slice.step is None:
            fld = s.targets[0].value
            setter = writes[fld.attr]
            ftype = sp['obj_attrs'][fld.attr][1]
            self.written.add(fld.attr)

            def with_obj2(x, tx):
                if tx != self.OBJ:
                    raise Unsupported('assignment to %s of a %s' % (ast.unparse(fld), tx))

                def with_val2(v, tv):
                    h2 = self.fresh(hname)
                    return '(let %s := %s %s %s (%s %s) in %s)' % (h2, self.UPD, self.H(env), x, setter, self.coerce(v, tv, ftype), nxt(self.after_write(env, h2)))
                return self.expr(s.value, env, with_val2)
            return self.expr(fld.value, env, with_obj2)
        if isinstance(s, ast.Expr) and isinstance(s.value, ast.Call) and isinstance(s.value.func, ast.Attribute):
            call = s.value
            meth = call.func.attr
            recv = call.func.value
            if meth in ('remove', 'append') and isinstance(recv, ast.Attribute) and recv.attr in writes \
                    and len(call.args) == 1 and not call.keywords:
                getter = sp['obj_attrs'][recv.attr][0]
                setter = writes[recv.attr]
                self.written.add(recv.attr)

                def with_owner(x, tx):
                    if tx != self.OBJ:
                        raise Unsupported('%s on a %s' % (ast.unparse(call.func), tx))

                    def with_elt(y, ty):
                        y2 = self.coerce(y, ty, 'obj')
                        new = '(remove1 %s (%s T_))' % (y2, getter) if meth == 'remove' else '(%s T_ ++ [%s])' % (getter, y2)
                        h2 = self.fresh(hname)
                        upd = '(let %s := upd %s %s (fun T_ => %s %s T_) in %s)' % (h2, self.H(env), x, setter, new, nxt(self.after_write(env, h2)))
                        if meth == 'remove':
                            # list.remove(y) raises ValueError when y is not in the list
                            return '(if existsb (Nat.eqb %s) (%s (get %s %s)) then %s else Crash ValueError)' % (y2, getter, self.H(env), x, upd)
                        return upd
                    return self.expr(call.args[0], env, with_elt)
                return self.expr(recv.value, env, with_owner)
            if meth == 'insert' and isinstance(recv, ast.Attribute) and recv.attr in writes \
                    and len(call.args) == 2 and not call.keywords and 'list_insert' in self.ops:
                getter = sp['obj_attrs'][recv.attr][0]
                setter = writes[recv.attr]
                self.written.add(recv.attr)

                def with_owner_i(x, tx):
                    if tx != self.OBJ:
                        raise Unsupported('%s on a %s' % (ast.unparse(call.func), tx))

                    def with_pos(i, ti):
                        def with_elt_i(y, ty):
                            h2 = self.fresh(hname)
                            new = '(%s %s %s (%s T_))' % (self.ops['list_insert'], self.coerce(i, ti, 'Z'), self.coerce(y, ty, 'obj'), getter)
                            return '(let %s := upd %s %s (fun T_ => %s %s T_) in %s)' % (h2, self.H(env), x, setter, new, nxt(self.after_write(env, h2)))
                        return self.expr(call.args[1], env, with_elt_i)
                    return self.expr(call.args[0], env, with_pos)
                return self.expr(recv.value, env, with_owner_i)
            mm = sp.get('method_mutators', {})
            if meth in mm and not call.keywords:
                fn, argtypes = mm[meth]
                self.written |= set(sp.get('mutator_writes', {}).get(meth, ['*']))

                def with_recv(x, tx):
                    if tx != self.OBJ:
                        raise Unsupported('%s on a %s' % (ast.unparse(call.func), tx))

                    def with_args(atoms):
                        h2 = self.fresh(hname)
                        return "(do '(%s, _) <- %s %s %s %s; %s)" % (h2, self.fill(fn, env), self.H(env), x, ' '.join(atoms), nxt(self.after_write(env, h2)))
                    return self.args(list(call.args), argtypes, env, with_args)
                return self.expr(recv, env, with_recv)
        return None

    def own_list(self, name):
        """`name.append(x)` / `name.remove(x)` / `name += l` change a list IN PLACE; the translation rebinds the name.  The two
        agree only if no other name shares the list: refused for a local that was bound to another name's or attribute's
        list, and for a parameter that is not given back as part of the state."""
        if name in self.aliased:
            raise Unsupported('%s is changed in place but was bound to a list that another name may share' % name)
        if name in self.spec.get('params', {}) and name not in self.state_names():
            t = self.spec['params'][name][1]
            if isinstance(t, tuple) and t[0] == 'list' and not self.spec.get('rebinds_param_lists'):
                raise Unsupported('the parameter %s is changed in place (the caller would see it): it must be part of the state' % name)

    def grows(self, node):
        """name of the local list / set that the statement-level call `name.append(x)` / `name.add(x)` grows"""
        if isinstance(node, ast.Expr) and isinstance(node.value, ast.Call) and isinstance(node.value.func, ast.Attribute) \
                and node.value.func.attr in ('append', 'add') and isinstance(node.value.func.value, ast.Name) \
                and len(node.value.args) == 1 and not node.value.keywords \
                and node.value.func.value.id in self.spec.get('locals', {}):
            return node.value.func.value.id
        return None

    def assigned(self, stmts):
        names = []
        for s in stmts:
            for n in ast.walk(s):
                if isinstance(n, ast.Call) and ast.unparse(n.func) in self.spec.get('state_calls', {}):
                    for sn in self.state_names():
                        if sn not in names:
                            names.append(sn)
                if isinstance(n, ast.Call) and ast.unparse(n.func) in self.spec.get('rebind_calls', {}):
                    for sn in self.spec['rebind_calls'][ast.unparse(n.func)][2]:
                        if sn not in names:
                            names.append(sn)
                m = self.mutator_of(n)
                if m is not None and m[0] not in names:
                    names.append(m[0])
                g = self.grows(n)
                if g is not None and g not in names:
                    names.append(g)
                if isinstance(n, (ast.Assign, ast.Delete)) and len(n.targets) == 1 and isinstance(n.targets[0], ast.Subscript) \
                        and isinstance(n.targets[0].value, ast.Name) and n.targets[0].value.id in self.spec.get('keysets', ()) \
                        and n.targets[0].value.id not in names:
                    names.append(n.targets[0].value.id)
                if isinstance(n, ast.Assign) and len(n.targets) == 1:
                    t0_ = n.targets[0].value if isinstance(n.targets[0], ast.Subscript) else n.targets[0]
                    if isinstance(t0_, ast.Attribute) and ast.unparse(t0_) in self.spec.get('table_fields', {}):
                        nm_ = self.spec['table_fields'][ast.unparse(t0_)][0]
                        if nm_ not in names:
                            names.append(nm_)
                if isinstance(n, ast.Expr) and isinstance(n.value, ast.Call) and isinstance(n.value.func, ast.Attribute) \
                        and n.value.func.attr == 'remove' and isinstance(n.value.func.value, ast.Name) \
                        and n.value.func.value.id in self.spec.get('locals', {}) and n.value.func.value.id not in names:
                    names.append(n.value.func.value.id)
                hn = self.spec.get('heap')
                if hn and hn not in names and hn in self.state_names():
                    if (isinstance(n, ast.Assign) and any(isinstance(t_, ast.Attribute) and t_.attr in self.spec.get('obj_writes', {})
                                                          for t_ in n.targets)) or \
                       (isinstance(n, ast.Assign) and len(n.targets) == 1 and isinstance(n.targets[0], ast.Subscript)
                            and isinstance(n.targets[0].value, ast.Attribute)
                            and n.targets[0].value.attr in self.spec.get('obj_writes', {})) or \
                       (isinstance(n, ast.Assign) and len(n.targets) == 1 and isinstance(n.targets[0], ast.Attribute)
                            and n.targets[0].attr in self.spec.get('prop_setters', {})) or \
                       (isinstance(n, ast.Call) and isinstance(n.func, ast.Attribute) and
                            (n.func.attr in self.spec.get('method_mutators', {}) or
                             (isinstance(n.func.value, ast.Name) and n.func.value.id == 'self'
                              and n.func.attr in self.spec.get('self_mutators', {})) or
                             (n.func.attr in ('remove', 'append', 'insert') and isinstance(n.func.value, ast.Attribute)
                              and n.func.value.attr in self.spec.get('obj_writes', {})))):
                        names.append(hn)
                if isinstance(n, (ast.Yield, ast.YieldFrom)) and '$yielded' not in names:
                    names.append('$yielded')
                if isinstance(n, (ast.Assign, ast.AugAssign, ast.AnnAssign)):
                    ts = n.targets if isinstance(n, ast.Assign) else [n.target]
                    for t in ts:
                        if isinstance(t, ast.Name) and t.id not in names:
                            names.append(t.id)
                        elif isinstance(t, ast.Attribute) and (t.attr in self.spec.get('obj_writes', {})
                                                               or t.attr in self.spec.get('prop_setters', {})):
                            pass
                        elif isinstance(t, ast.Subscript) and isinstance(t.value, ast.Attribute) \
                                and t.value.attr in self.spec.get('obj_writes', {}):
                            pass
                        elif isinstance(t, ast.Subscript) and isinstance(t.value, ast.Name) and t.value.id in self.spec.get('keysets', ()):
                            pass
                        elif ast.unparse(t.value if isinstance(t, ast.Subscript) else t) in self.spec.get('table_fields', {}):
                            pass
                        elif not isinstance(t, ast.Name):
                            raise Unsupported('assignment to %s' % ast.unparse(t))
        return names

    def local_type(self, name):
        if name == '$yielded':
            return self.ret
        if name == self.spec.get('heap') and name in self.state_names():
            return self.spec.get('heap_type', 'heap')
        t = self.spec.get('locals', {}).get(name)
        if t is None:
            raise Unsupported('loop-carried variable %s has no declared type in the spec' % name)
        return t

    def block(self, stmts, env, fall, loop=None):
        """Translate a statement list; `fall(env)` is what happens when control falls off its end;
        `loop` = (continue_k) inside a loop body."""
        if not stmts:
            return fall(env)
        s, rest = stmts[0], stmts[1:]
        self.stmt_env = env
        nxt = lambda env1: self.block(rest, env1, fall, loop)
        if isinstance(s, ast.Expr) and isinstance(s.value, ast.Constant) and isinstance(s.value.value, str):
            return nxt(env)                                  # docstring
        if isinstance(s, ast.Pass):
            return nxt(env)
        if isinstance(s, ast.FunctionDef) and s.name in self.spec.get('nested_defs', ()):
            return nxt(env)                                  # a nested function: translated on its own (see the spec)
        if isinstance(s, ast.Return):
            st = self.state_names()

            def result(a, ta):
                v = self.coerce(a, ta, self.ret, 'as the result')
                if self.xmode():
                    return 'Ok (%s, XRet %s)' % (self.state_value(env), v)
                return 'Ok (%s, %s)' % (self.state_value(env), v) if st else 'Ok %s' % v
            if s.value is None:
                if self.ret == 'unit':
                    if self.xmode():
                        return 'Ok (%s, XRet tt)' % self.state_value(env)
                    return 'Ok (%s, tt)' % self.state_value(env) if st else 'Ok tt'
                return result('None', 'none')
            return self.expr(s.value, env, result)
        if isinstance(s, ast.Try) and not s.orelse and not s.finalbody and len(s.handlers) == 1 and len(s.body) == 1 \
                and isinstance(s.body[0], ast.Return) and isinstance(s.body[0].value, ast.Call) \
                and ast.unparse(s.body[0].value.func) == 'next' and len(s.body[0].value.args) == 1 \
                and isinstance(s.handlers[0].type, ast.Name) and s.handlers[0].type.id == 'StopIteration' \
                and len(s.handlers[0].body) == 1 and isinstance(s.handlers[0].body[0], ast.Raise):
            # try: return next(x for x in L if c)  except StopIteration: raise E   - the first match, or E when there is none
            g = s.body[0].value.args[0]
            if not isinstance(g, ast.GeneratorExp) or len(g.generators) != 1 or len(g.generators[0].ifs) != 1 \
                    or not isinstance(g.generators[0].target, ast.Name) or not (isinstance(g.elt, ast.Name) and g.elt.id == g.generators[0].target.id):
                raise Unsupported('next(...) of this generator expression')
            gen = g.generators[0]
            on_none = self.block([s.handlers[0].body[0]], env, fall, loop)

            def first_or(l, tl):
                if not (isinstance(tl, tuple) and tl[0] == 'list'):
                    raise Unsupported('next over a %s' % (tl,))
                x = self.fresh(gen.target.id)
                env2 = dict(env)
                env2[gen.target.id] = (x, tl[1])
                v = self.fresh('found')
                st = self.state_names()
                ok = 'Ok (%s, %s)' % (self.state_value(env), v) if st else 'Ok %s' % self.coerce(v, tl[1], self.ret, 'as the result')
                return '(match find (fun %s => %s) %s with None => %s | Some %s => %s end)' % (
                    x, self.pure_bool(gen.ifs[0], env2), l, on_none, v, ok)
            return self.expr(gen.iter, env, first_or)
        if isinstance(s, ast.Raise):
            exc = s.exc
            name = exc.func.id if isinstance(exc, ast.Call) and isinstance(exc.func, ast.Name) else \
                (exc.id if isinstance(exc, ast.Name) else None)
            if name == 'RuntimeError':
                return self.rejected(env) if self.xmode() else 'Err'
            if name in ('KeyError', 'TypeError', 'ValueError', 'IndexError', 'ZeroDivisionError', 'AttributeError'):
                if self.xmode():
                    return 'Ok (%s, XRaise %s)' % (self.state_value(env), name)      # an explicit raise: the state is known
                return 'Crash %s' % name
            raise Unsupported('raise %s' % ast.unparse(s))
        if isinstance(s, ast.Continue):
            if loop is None:
                raise Unsupported('continue outside a loop')
            return loop(env)
        # a call that changes a state object: allowed as a statement, as the whole right-hand side of an assignment or
        # of an augmented assignment (anywhere else the evaluation order would have to be modelled: unsupported)
        val = s.value if isinstance(s, (ast.Assign, ast.AugAssign, ast.Expr, ast.AnnAssign)) else None
        if isinstance(s, ast.Assign) and val is not None and self.mutator_of(val) is None and self.spec.get('mutators'):
            inner = [n for n in ast.walk(val) if self.mutator_of(n) is not None]
            if len(inner) == 1:
                # f(g(state...), pure...) where the state-changing call is what Python evaluates first: name its result
                node = val
                while node is not inner[0]:
                    if isinstance(node, ast.Call) and isinstance(node.func, ast.Name) and node.args and not node.keywords:
                        node = node.args[0]
                    elif isinstance(node, ast.BinOp):
                        node = node.left
                    else:
                        raise Unsupported('a state-changing call that is not evaluated first: %s' % ast.unparse(s))
                tmpn = 'hoisted%d' % self.n
                self.spec.setdefault('locals', {})

                import copy
                inner_text = ast.unparse(inner[0])

                class _Sub(ast.NodeTransformer):
                    def visit_Call(self_, n):
                        if ast.unparse(n) == inner_text:
                            return ast.Name(id=tmpn, ctx=ast.Load())
                        return self_.generic_visit(n)
                first = ast.Assign(targets=[ast.Name(id=tmpn, ctx=ast.Store())], value=inner[0])
                second = ast.Assign(targets=s.targets, value=_Sub().visit(copy.deepcopy(val)))
                return self.block([first, second] + rest, env, fall, loop)
        if isinstance(s, ast.Expr) and isinstance(val, ast.Call) and ast.unparse(val.func) in self.spec.get('rebind_calls', {}):
            # a call of a translated function that changes objects which this function holds in local variables: the spec
            # gives the Coq call (with ${name} for current values, $0 $1 .. for the translated arguments at the given
            # positions), the pattern of its result (with %name for the locals that get a new value) and checks the arguments
            tmpl, pattern, names, arg_idx, arg_types, must = self.spec['rebind_calls'][ast.unparse(val.func)]
            if val.keywords:
                raise Unsupported('keywords in %s' % ast.unparse(val))
            for pos, text in must.items():
                if pos >= len(val.args) or ast.unparse(val.args[pos]) != text:
                    raise Unsupported('%s: argument %d must be %s' % (ast.unparse(val.func), pos, text))

            def after_rebind(atoms):
                call = self.fill(tmpl, env)
                for i_, a_ in enumerate(atoms):
                    call = call.replace('$%d' % i_, a_)
                env2 = {k_: v_ for k_, v_ in env.items() if not (isinstance(k_, tuple) and k_[0] in ('$field', '$sub'))}
                pat = pattern
                for n_ in names:
                    nn = self.fresh(n_)
                    pat = pat.replace('%' + n_, nn)
                    env2[n_] = (nn, env[n_][1])
                return "(do '%s <- %s; %s)" % (pat, call, nxt(env2))
            return self.args([val.args[i] for i in arg_idx], arg_types, env, after_rebind)
        if isinstance(s, ast.Expr) and isinstance(val, ast.Call) and ast.unparse(val.func) in self.spec.get('state_calls', {}):
            # a call that takes every state variable and gives all of them back (the function itself, or a translated one)
            fn, idx, types = self.spec['state_calls'][ast.unparse(val.func)]
            names = self.state_names()
            if val.keywords:
                raise Unsupported('keywords in %s' % ast.unparse(val))
            for pyname, pos in self.spec.get('state_args', {}).get(ast.unparse(val.func), {}).items():
                # the state variables must be handed over as themselves
                if not (isinstance(val.args[pos], ast.Name) and val.args[pos].id == pyname):
                    raise Unsupported('%s: argument %d must be %s' % (ast.unparse(val.func), pos, pyname))

            def after_state_call(atoms):
                news = [self.fresh(n) for n in names]
                env2 = {k_: v_ for k_, v_ in env.items() if not (isinstance(k_, tuple) and k_[0] in ('$field', '$sub'))}
                for n, nn in zip(names, news):
                    env2[n] = (nn, env[n][1])
                return "(do '(%s, _) <- %s %s %s; %s)" % (self.state_pattern(news), self.fill(fn, env),
                                                         ' '.join(env[n][0] for n in names), ' '.join(atoms), nxt(env2))
            return self.args([val.args[i] for i in idx], types, env, after_state_call)
        mut = self.mutator_of(val) if val is not None else None
        if mut is None and any(self.mutator_of(n) is not None for n in ast.walk(s)) and not isinstance(s, (ast.If, ast.For, ast.While)):
            raise Unsupported('a state-changing call inside a larger expression: %s' % ast.unparse(s))
        if mut is not None:
            state, fn, argtypes, rt = mut[:4]
            mut_idx = mut[4] if len(mut) > 4 else None

            def after_call(atoms):
                st2, v = self.fresh(state), self.fresh('r')
                env2 = dict(env)
                env2[state] = (st2, env[state][1])
                if isinstance(s, ast.Expr):
                    cont = nxt(env2)
                elif isinstance(s, ast.AugAssign):
                    if not isinstance(s.target, ast.Name):
                        raise Unsupported('augmented assignment to %s' % ast.unparse(s.target))
                    tmp = '$mut%d' % self.n
                    env2[tmp] = (v, rt)
                    e2 = ast.BinOp(left=ast.Name(id=s.target.id, ctx=ast.Load()), op=s.op, right=ast.Name(id=tmp, ctx=ast.Load()))
                    cont = self.expr(e2, env2, lambda a, ta: self.bind(s.target.id, a, ta, env2, nxt))
                else:
                    tgt0 = s.targets[0] if isinstance(s, ast.Assign) else s.target
                    if not isinstance(tgt0, ast.Name):
                        raise Unsupported('assignment form %s' % ast.unparse(s))
                    cont = self.bind(tgt0.id, v, rt, env2, nxt)
                return "(do '(%s, %s) <- %s %s %s; %s)" % (st2, v, self.fill(fn, env), env[state][0], ' '.join(atoms), cont)
            if val.keywords:
                raise Unsupported('keywords in %s' % ast.unparse(val))
            chosen = list(val.args) if mut_idx is None else [val.args[i] for i in mut_idx]
            return self.args(chosen, argtypes, env, after_call)
        if isinstance(s, ast.AugAssign) and isinstance(s.target, ast.Attribute) and isinstance(s.target.value, ast.Name) and \
                (s.target.attr in self.spec.get('obj_writes', {}) or s.target.attr in self.spec.get('prop_setters', {})):
            # x.f op= e  is  x.f = x.f op e
            load = ast.Attribute(value=s.target.value, attr=s.target.attr, ctx=ast.Load())
            s = ast.Assign(targets=[s.target], value=ast.BinOp(left=load, op=s.op, right=s.value))
        hw = self.heap_write(s, env, nxt)
        if hw is not None:
            return hw
        if isinstance(s, ast.Expr) and isinstance(s.value, ast.Call) and isinstance(s.value.func, ast.Attribute) \
                and s.value.func.attr == 'remove' and isinstance(s.value.func.value, ast.Name) \
                and len(s.value.args) == 1 and not s.value.keywords and s.value.func.value.id in self.spec.get('locals', {}) \
                and s.value.func.value.id in env:
            # name.remove(x) on a local list: the first occurrence goes, ValueError when there is none
            lname = s.value.func.value.id
            lt = self.local_type(lname)
            self.own_list(lname)

            def removed(a, ta):
                a2 = self.coerce(a, ta, lt[1])
                return '(if existsb (%s %s) %s then %s else Crash ValueError)' % (
                    self.eqb(lt[1]), a2, env[lname][0], self.bind(lname, '(%s %s %s)' % (self.ops.get('remove1', 'remove1'), a2, env[lname][0]), lt, env, nxt))
            return self.expr(s.value.args[0], env, removed)
        tf = self.spec.get('table_fields', {})
        if isinstance(s, ast.Assign) and len(s.targets) == 1 and isinstance(s.targets[0], ast.Attribute) \
                and ast.unparse(s.targets[0]) in tf and isinstance(s.value, ast.Dict) and not s.value.keys:
            nm, tt_ = tf[ast.unparse(s.targets[0])]
            env2 = dict(env)
            env2[nm] = ('[]', tt_)
            return nxt(env2)
        if isinstance(s, ast.Assign) and len(s.targets) == 1 and isinstance(s.targets[0], ast.Subscript) \
                and ast.unparse(s.targets[0].value) in tf:
            # self.f[i] = e with i the variable of the enclosing `for i in range(0, n)`: the i-th entry of a table that is
            # filled in index order (a dict with the keys 0 .. n-1, read with nth afterwards)
            nm, tt_ = tf[ast.unparse(s.targets[0].value)]
            ix = s.targets[0].slice
            if not (isinstance(ix, ast.Name) and ix.id in self.range_vars) or nm not in env:
                raise Unsupported('%s: the index must be the variable of an enclosing range loop' % ast.unparse(s.targets[0]))
            return self.expr(s.value, env, lambda a, ta: self.bind(nm, '(%s ++ [%s])' % (env[nm][0], self.coerce(a, ta, tt_[1])), tt_, env, nxt))
        ks = self.spec.get('keysets', ())
        if isinstance(s, ast.Assign) and len(s.targets) == 1 and isinstance(s.targets[0], ast.Subscript) \
                and isinstance(s.targets[0].value, ast.Name) and s.targets[0].value.id in ks:
            # d[k] = v on a dict of which only the keys matter here (membership tests): the key joins
            dn = s.targets[0].value.id
            lt = self.local_type(dn)
            self.own_list(dn)
            return self.expr(s.targets[0].slice, env, lambda a, ta: self.expr(s.value, env, lambda _v, _tv: self.bind(
                dn, '(%s ++ [%s])' % (env[dn][0], self.coerce(a, ta, lt[1])), lt, env, nxt)))
        if isinstance(s, ast.Delete) and len(s.targets) == 1 and isinstance(s.targets[0], ast.Subscript) \
                and isinstance(s.targets[0].value, ast.Name) and s.targets[0].value.id in ks:
            dn = s.targets[0].value.id
            lt = self.local_type(dn)
            self.own_list(dn)

            def deleted(a, ta):
                a2 = self.coerce(a, ta, lt[1])
                return '(if existsb (%s %s) %s then %s else Crash KeyError)' % (
                    self.eqb(lt[1]), a2, env[dn][0], self.bind(dn, '(%s %s %s)' % (self.ops.get('remove1', 'remove1'), a2, env[dn][0]), lt, env, nxt))
            return self.expr(s.targets[0].slice, env, deleted)
        g = self.grows(s)
        if g is not None:
            t = self.local_type(g)
            self.own_list(g)

            def grown(a, ta):
                return self.bind(g, '(%s ++ [%s])' % (env[g][0], self.coerce(a, ta, t[1])), t, env, nxt)
            return self.expr(s.value.args[0], env, grown)
        if isinstance(s, ast.Expr) and isinstance(s.value, ast.Yield):
            # a generator is translated as the list of what it yields, in order
            t = self.ret

            def yielded(a, ta):
                return self.bind('$yielded', '(%s ++ [%s])' % (env['$yielded'][0], self.coerce(a, ta, t[1])), t, env, nxt)
            return self.expr(s.value.value, env, yielded)
        if isinstance(s, ast.Expr) and isinstance(s.value, ast.YieldFrom):
            def extended(a, ta):
                if ta != self.ret:
                    raise Unsupported('yield from a %s' % (ty_str(ta),))
                return self.bind('$yielded', '(%s ++ %s)' % (env['$yielded'][0], a), self.ret, env, nxt)
            return self.expr(s.value.value, env, extended)
        if isinstance(s, ast.Expr) and isinstance(s.value, ast.Call) and self.mutator_of(s.value) is None and \
                (ast.unparse(s.value.func) in self.spec.get('calls', {}) or
                 (isinstance(s.value.func, ast.Attribute) and ('.' + s.value.func.attr) in self.spec.get('calls', {})
                  and s.value.func.attr not in self.spec.get('method_mutators', {}))):
            return self.expr(s.value, env, lambda a, ta: nxt(env))      # called for its exceptions only
        if isinstance(s, ast.Expr) and isinstance(s.value, ast.Call) and ast.unparse(s.value.func) in self.spec.get('ignored_calls', ()):
            return nxt(env)
        if isinstance(s, ast.Expr) and isinstance(s.value, ast.Call) and ast.unparse(s.value.func) in self.spec.get('appends', {}):
            # self.rows.append(X): the field is a state variable of this function
            state, elt = self.spec['appends'][ast.unparse(s.value.func)]
            if len(s.value.args) != 1:
                raise Unsupported('append with %d arguments' % len(s.value.args))

            def appended(a, ta):
                st2 = self.fresh(state)
                env2 = dict(env)
                env2[state] = (st2, env[state][1])
                return '(let %s := (%s ++ [%s]) in %s)' % (st2, env[state][0], self.coerce(a, ta, elt), nxt(env2))
            return self.expr(s.value.args[0], env, appended)
        if isinstance(s, ast.Assign) and len(s.targets) == 1 and isinstance(s.targets[0], ast.Attribute) \
                and ast.unparse(s.targets[0]) in self.spec.get('stores', {}):
            # a constructor storing its (validated) argument in a field: the translation is the validation; the stored
            # value must be the argument the spec names, unchanged
            want = self.spec['stores'][ast.unparse(s.targets[0])]
            if not (isinstance(s.value, ast.Name) and s.value.id == want):
                raise Unsupported('%s stores %s, the spec expects the argument %s' % (ast.unparse(s.targets[0]), ast.unparse(s.value), want))
            return nxt(env)
        if isinstance(s, (ast.Assign, ast.AnnAssign)):
            tgt = s.targets[0] if isinstance(s, ast.Assign) else s.target
            if (isinstance(s, ast.Assign) and len(s.targets) != 1) or not isinstance(tgt, ast.Name) or s.value is None:
                raise Unsupported('assignment form %s' % ast.unparse(s))

            def bound(a, ta):
                shares = isinstance(s.value, (ast.Name, ast.Attribute, ast.Subscript)) and isinstance(ta, tuple) and ta[0] == 'list'
                if shares:
                    self.aliased.add(tgt.id)            # x = y / x = o.lst: two names for one list
                else:
                    self.aliased.discard(tgt.id)
                return self.bind(tgt.id, a, ta, env, nxt)
            return self.expr(s.value, env, bound)
        if isinstance(s, ast.AugAssign):
            if not isinstance(s.target, ast.Name):
                raise Unsupported('augmented assignment to %s' % ast.unparse(s.target))
            e2 = ast.BinOp(left=ast.Name(id=s.target.id, ctx=ast.Load()), op=s.op, right=s.value)

            def aug(a, ta):
                if isinstance(ta, tuple) and ta[0] == 'list':
                    self.own_list(s.target.id)          # list += ... extends the list in place
                return self.bind(s.target.id, a, ta, env, nxt)
            return self.expr(e2, env, aug)
        if isinstance(s, ast.If) and self.spec.get('joins') and rest:
            # long functions: what follows the `if` becomes a local function of the variables the branches assign (a join
            # point), so that it is emitted once; what a branch learnt about an Optional is not carried past the join
            vs = [v for v in self.assigned(list(s.body) + list(s.orelse)) if v in env]
            vts = [self.local_type(v) for v in vs]
            j = self.fresh('join')
            ps = [self.fresh(v) for v in vs]
            envj = {k: v for k, v in env.items() if not (isinstance(k, tuple) and k[0] in ('$sub', '$field'))}
            for v, p_, t in zip(vs, ps, vts):
                envj[v] = (p_, t)
            sig = ' '.join('(%s : %s)' % (p_, ty_str(t)) for p_, t in zip(ps, vts)) or '(_ : unit)'
            after = self.block(rest, envj, fall, loop)

            def goto(env1):
                args = ' '.join(self.coerce(env1[v][0], env1[v][1], t, 'at the join') for v, t in zip(vs, vts)) or 'tt'
                return '(%s %s)' % (j, args)
            body = self.cond(s.test, env,
                             lambda env1: self.block(list(s.body), env1, goto, loop),
                             lambda env2: self.block(list(s.orelse), env2, goto, loop))
            return '(let %s := (fun %s => %s) in %s)' % (j, sig, after, body)
        if isinstance(s, ast.If):
            return self.cond(s.test, env,
                             lambda env1: self.block(list(s.body) + rest, env1, fall, loop),
                             lambda env2: self.block(list(s.orelse) + rest, env2, fall, loop))
        if isinstance(s, ast.For):
            return self.for_loop(s, rest, env, fall, loop)
        if isinstance(s, ast.While):
            return self.while_loop(s, rest, env, fall, loop)
        raise Unsupported('statement %s' % type(s).__name__)

    def bind(self, name, a, ta, env, nxt):
        env2 = dict(env)
        for key in list(env2):
            if isinstance(key, tuple) and key[0] == '$sub' and name in (key[1], key[2]):
                del env2[key]
            if isinstance(key, tuple) and key[0] == '$field' and key[1].split('.')[0] == name:
                del env2[key]
        if ta in ('intlit', 'none', 'emptylist'):
            want = self.spec.get('locals', {}).get(name)
            if want is None:
                raise Unsupported('variable %s initialised with a bare literal needs a declared type' % name)
            a, ta = self.coerce(a, ta, want), want
        if a.startswith('('):
            v = self.fresh(name)
            env2[name] = (v, ta)
            return '(let %s := %s in %s)' % (v, a, nxt(env2))
        env2[name] = (a, ta)
        return nxt(env2)

    def carried(self, body, env):
        return [n for n in self.assigned(body) if n in env]

    def scope(self, env, carried=()):
        """Identifiers in scope (they become parameters of the lifted loop function): the parameters of the function
        and every name bound so far, except the pre-loop value of a loop-carried variable that nothing else refers to."""
        import re
        seen, out = set(), []
        reserved = set(self.ops.values()) | {'None', 'true', 'false', 'tt'}
        for cname, t in self.spec.get('signature', []):
            seen.add(cname)
            out.append((cname, t))
        drop = set()
        for v in carried:
            atom = env[v][0]
            if sum(1 for k2, (a2, _) in env.items() if a2 == atom) == 1 and atom not in seen:
                drop.add(atom)
        for key, (atom, t) in env.items():
            if re.match(r"^[A-Za-z_][A-Za-z0-9_']*$", atom) and atom not in reserved and atom not in seen \
                    and atom not in drop and t not in ('intlit', 'none'):
                seen.add(atom)
                out.append((atom, t))
        return out

    def loop_name(self):
        self.nloops += 1
        return '%s_loop%d' % (self.spec['coq_name'], self.nloops)

    def fold_loop(self, s, rest, env, fall, outer):
        """`for x in L: body` without return / break, as a monadic fold over L (used inside functions that recurse on
        fuel: a lifted loop could not call the function it belongs to)"""
        for n in ast.walk(ast.Module(body=list(s.body), type_ignores=[])):
            if isinstance(n, (ast.Return, ast.Break)):
                raise Unsupported('return / break inside a loop of a recursive function')
        vs = self.carried(s.body, env)
        vts = [self.local_type(v) if v != '$yielded' else self.ret for v in vs]
        params = [self.fresh(v.strip('$')) for v in vs]
        st = self.fresh('st')
        x = self.fresh(s.target.id)

        def tup(names):
            return names[0] if len(names) == 1 else '(%s)' % ', '.join(names)

        def pass_vars(env1):
            return tup([self.coerce(env1[v][0], env1[v][1], t, 'carried by the loop') for v, t in zip(vs, vts)])

        def env_in(base):
            e2 = {k: v for k, v in base.items() if not (isinstance(k, tuple) and k[0] in ('$sub', '$field'))}
            for v, p, t in zip(vs, params, vts):
                e2[v] = (p, t)
            return e2

        def with_iter(a, ta):
            if not (isinstance(ta, tuple) and ta[0] == 'list'):
                raise Unsupported('for over a %s' % (ty_str(ta) if ta not in ('intlit', 'none', 'emptylist') else ta))
            e_body = env_in(env)
            e_body[s.target.id] = (x, ta[1])
            done = (lambda env1: 'Ok %s' % pass_vars(env1)) if vs else (lambda env1: 'Ok tt')
            body = self.block(list(s.body), e_body, done, done)
            after = self.block(rest, env_in(env), fall, outer)
            pat = tup(params) if vs else 'tt'
            if not vs:
                return '(do _ <- %s (fun (_ : unit) %s => %s) %s tt; %s)' % (self.ops.get('fold', 'fold_res'), x, body, a, after)
            return "(do %s <- %s (fun %s %s => let '%s := %s in %s) %s %s; let '%s := %s in %s)" % (
                st, self.ops.get('fold', 'fold_res'), st, x, pat, st, body, a, pass_vars(env), pat, st, after)
        return self.expr(s.iter, env, with_iter)

    def live_iteration_guard(self, s):
        """A `for` over a list that lives in the heap (`x.__children` ...) is translated as a loop over the list as it is
        when the loop starts; Python walks the LIVE list.  The two agree only if the body does not change that list:
        refused unless the body writes no field of that name - directly, or through a translated method / setter whose
        written fields the spec does not declare (`mutator_writes`) as disjoint from it."""
        sp = self.spec
        it = s.iter
        if not (isinstance(it, ast.Attribute) and it.attr in sp.get('obj_attrs', {}) and sp.get('obj_writes')):
            return
        fld = it.attr
        fields = {fld, fld.lstrip('_'), '__' + fld.lstrip('_')}           # the public getter and the private list are one list
        declared = sp.get('mutator_writes', {})
        for n in ast.walk(ast.Module(body=list(s.body), type_ignores=[])):
            tgt = None
            if isinstance(n, ast.Assign):
                for t in n.targets:
                    t0 = t.value if isinstance(t, ast.Subscript) else t
                    if isinstance(t0, ast.Attribute) and (t0.attr in fields):
                        tgt = ast.unparse(t)
                    if isinstance(t0, ast.Attribute) and t0.attr in sp.get('prop_setters', {}):
                        w = declared.get(t0.attr)
                        if w is None or fields & set(w):
                            tgt = ast.unparse(t) + ' (a setter that may write %s)' % fld
            if isinstance(n, ast.AugAssign) and isinstance(n.target, ast.Attribute) and n.target.attr in fields:
                tgt = ast.unparse(n.target)
            if isinstance(n, ast.Call) and isinstance(n.func, ast.Attribute):
                if n.func.attr in ('remove', 'append', 'insert', 'sort', 'clear', 'pop', 'extend', 'reverse') \
                        and isinstance(n.func.value, ast.Attribute) and n.func.value.attr in fields:
                    tgt = ast.unparse(n.func)
                name = n.func.attr
                if name in sp.get('method_mutators', {}) or name in sp.get('self_mutators', {}) or ast.unparse(n.func) in sp.get('state_calls', {}):
                    w = declared.get(name)
                    if w is None or fields & set(w):
                        tgt = ast.unparse(n.func) + ' (may write %s)' % fld
            if tgt is not None:
                raise Unsupported('the loop walks %s while its body changes it through %s: Python walks the live list' % (ast.unparse(it), tgt))

    def for_loop(self, s, rest, env, fall, outer):
        if s.orelse or not isinstance(s.target, ast.Name):
            raise Unsupported('for-loop form')
        self.live_iteration_guard(s)
        if self.spec.get('loops') == 'fold':
            return self.fold_loop(s, rest, env, fall, outer)
        if any(isinstance(n, (ast.For, ast.While)) for st in s.body for n in ast.walk(st)):
            raise Unsupported('a loop inside a loop (the spec must ask for the fold translation)')
        vs = self.carried(s.body, env)
        vts = [self.local_type(v) for v in vs]
        params = [self.fresh(v) for v in vs]
        sig = ' '.join('(%s : %s)' % (p, ty_str(t)) for p, t in zip(params, vts))
        extras = self.scope(env, vs)

        def env_in(base):
            e2 = {k: v for k, v in base.items() if not (isinstance(k, tuple) and k[0] in ('$sub', '$field'))}
            for v, p, t in zip(vs, params, vts):
                e2[v] = (p, t)
            return e2

        def pass_vars(env1):
            return ' '.join(self.coerce(env1[v][0], env1[v][1], t, 'carried by the loop') for v, t in zip(vs, vts))

        after = self.block(rest, env_in(env), fall, outer)
        it = s.iter
        self_name = [None]
        exs = ' '.join(a for a, _ in extras)
        if isinstance(it, ast.Call) and ast.unparse(it.func) == 'range' and len(it.args) == 2:
            n, i, n2 = self.fresh('n'), self.fresh(s.target.id), self.fresh('n')
            self.range_vars.add(s.target.id)
            e_body = env_in(env)
            e_body[s.target.id] = (i, 'Z')
            name = self.loop_name()
            cont = lambda env1: '(%s %s %s (%s + 1) %s)' % (name, exs, n2, i, pass_vars(env1))
            body = self.block(list(s.body), e_body, cont, cont)
            lo, tlo = self.pure(it.args[0], env)
            hi, thi = self.pure(it.args[1], env)
            lo, hi = self.coerce(lo, tlo, 'Z'), self.coerce(hi, thi, 'Z')
            self.emit_loop(name, extras, '(%s : nat) (%s : Z)' % (n, i), sig, n, ('O', after), ('S %s' % n2, body))
            return '(%s %s (Z.to_nat (%s - %s)) %s %s)' % (name, exs, hi, lo, lo, pass_vars(env))
        l, x, l2 = self.fresh('l'), self.fresh(s.target.id), self.fresh('l')

        def with_iter(a, ta):
            if not (isinstance(ta, tuple) and ta[0] == 'list'):
                raise Unsupported('for over a %s' % ty_str(ta))
            e_body = env_in(env)
            e_body[s.target.id] = (x, ta[1])
            name = self.loop_name()
            cont = lambda env1: '(%s %s %s %s)' % (name, exs, l2, pass_vars(env1))
            body = self.block(list(s.body), e_body, cont, cont)
            self.emit_loop(name, extras, '(%s : %s)' % (l, ty_str(ta)), sig, l, ('[]', after), ('%s :: %s' % (x, l2), body))
            return '(%s %s %s %s)' % (name, exs, a, pass_vars(env))
        return self.expr(it, env, with_iter)

    def emit_loop(self, name, extras, decl, sig, struct, nil, cons):
        ex = ' '.join('(%s : %s)' % (a, ty_str(t)) for a, t in extras)
        rt = self.res_type()
        self.lifted.append('Fixpoint %s %s %s %s {struct %s} : %s :=\n  match %s with\n  | %s => %s\n  | %s => %s\n  end.\n'
                           % (name, ex, decl, sig, struct, rt, struct, nil[0], nil[1], cons[0], cons[1]))

    def while_loop(self, s, rest, env, fall, outer):
        if s.orelse:
            raise Unsupported('while-else')
        fuel_expr = self.spec.get('while_fuel')
        if fuel_expr is None:
            raise Unsupported('while loop without a fuel expression in the spec')
        vs = self.carried(s.body, env)
        vts = [self.local_type(v) for v in vs]
        f, f2 = self.fresh('fuel'), self.fresh('fuel')
        params = [self.fresh(v) for v in vs]
        sig = ' '.join('(%s : %s)' % (p, ty_str(t)) for p, t in zip(params, vts))
        extras = self.scope(env, vs)
        exs = ' '.join(a for a, _ in extras)

        def env_in(base):
            e2 = {k: v for k, v in base.items() if not (isinstance(k, tuple) and k[0] in ('$sub', '$field'))}
            for v, p, t in zip(vs, params, vts):
                e2[v] = (p, t)
            return e2

        def pass_vars(env1):
            return ' '.join(self.coerce(env1[v][0], env1[v][1], t, 'carried by the loop') for v, t in zip(vs, vts))
        e_in = env_in(env)
        name = self.loop_name()
        after = lambda env1: self.block(rest, env1, fall, outer)
        cont = lambda env1: '(%s %s %s %s)' % (name, exs, f2, pass_vars(env1))
        body = self.cond(s.test, e_in, lambda env1: self.block(list(s.body), env1, cont, cont), after)
        self.emit_loop(name, extras, '(%s : nat)' % f, sig, f, ('O', 'Crash OutOfFuel'), ('S %s' % f2, body))
        return '(%s %s %s %s)' % (name, exs, fuel_expr, pass_vars(env))

    def res_type(self):
        st = self.spec.get('state')
        if st and self.xmode():
            return '(res (%s * xout %s))' % (ty_str(self.state_type), ty_str(self.ret))
        if st:
            return '(res (%s * %s))' % (ty_str(self.state_type), ty_str(self.ret))
        return '(res %s)' % ty_str(self.ret)

    # ---- a whole function -------------------------------------------------------------------------------
    def function(self, fn):
        sp = self.spec
        env = {}
        params = []
        for pname, (cname, t) in sp.get('params', {}).items():
            env[pname] = (cname, t)
        for path, (sname, cname, t) in sp.get('state_fields', {}).items():
            env[sname] = (cname, t)             # a field of self that this function changes
        if sp.get('state'):
            sts = [env[n][1] for n in self.state_names()]
            self.state_type = sts[0] if len(sts) == 1 else ('prod', sts)
        declared = [a.arg for a in fn.args.args if a.arg not in ('self', 'cls')]
        for a in declared:
            if a not in env and a not in sp.get('ignored_params', ()):
                raise Unsupported('parameter %s is not described by the spec' % a)
        defaults = fn.args.defaults
        for a, d in zip(fn.args.args[len(fn.args.args) - len(defaults):], defaults):
            # a default matters to the translation only where the spec says so (a call site of the translated code that
            # omits the argument); horizons such as max_steps are explicit parameters of the emitted definition
            want = sp.get('defaults', {}).get(a.arg)
            if want is not None and ast.unparse(d) != want and a.arg not in sp.get('ignored_params', ()):
                raise Unsupported('default of %s is %s, the spec expects %s' % (a.arg, ast.unparse(d), want))
        for cname, t in sp.get('signature', []):
            params.append('(%s : %s)' % (cname, ty_str(t)))

        if sp.get('generator'):
            env['$yielded'] = ('[]', self.ret)
        self.rec_fuel = self.fresh('fuel') if sp.get('recursive') else None

        def fall(env1):
            st = self.state_names()
            if sp.get('result_field'):
                # a constructor translated as the function from its arguments to the table it builds
                return 'Ok %s' % env1[sp['table_fields'][sp['result_field']][0]][0]
            if sp.get('generator'):
                return 'Ok %s' % env1['$yielded'][0]
            if isinstance(self.ret, tuple) and self.ret[0] == 'option':
                return 'Ok (%s, None)' % self.state_value(env1) if st else 'Ok None'
            if self.ret == 'unit':
                if self.xmode():
                    return 'Ok (%s, XRet tt)' % self.state_value(env1)
                return 'Ok (%s, tt)' % self.state_value(env1) if st else 'Ok tt'
            raise Unsupported('control can fall off the end of the function')
        body = self.block(list(fn.body), env, fall)
        if 'writes' in sp:
            # what callers may assume about this function when they loop over a heap list (live_iteration_guard)
            norm = lambda f: '__' + f.lstrip('_')
            extra = {norm(f) for f in self.written if f != '*'} - {norm(f) for f in sp['writes']}
            if extra or ('*' in self.written and '*' not in sp['writes']):
                raise Unsupported('the spec declares that this function writes %s, its body writes %s' % (sorted(sp['writes']), sorted(self.written)))
        if sp.get('recursive'):
            # a function that calls itself: structural recursion on an explicit fuel; running out of it is Python's
            # RecursionError (the depth exceeds the fuel only when the object graph has a cycle or is deeper than the fuel)
            f0 = self.fresh('fuel')
            return ''.join(t + '\n' for t in self.lifted) + (
                'Fixpoint %s (%s : nat) %s {struct %s} : %s :=\n  match %s with\n  | O => Crash RecursionError\n  | S %s => %s\n  end.\n'
                % (sp['coq_name'], f0, ' '.join(params), f0, self.res_type(), f0, self.rec_fuel, body))
        return ''.join(t + '\n' for t in self.lifted) + 'Definition %s %s : %s :=\n  %s.\n' % (
            sp['coq_name'], ' '.join(params), self.res_type(), body)


def find_function(tree, cls, func, nested_in=None, decorator=None):
    """The FunctionDef of `cls.func` (cls None = module level); private names are matched as written.
    `nested_in`: the function is defined inside that method; `decorator`: text of the decorator that tells a property
    getter ('property') from its setter ('name.setter')."""
    body = tree.body
    if cls is not None:
        cs = [n for n in tree.body if isinstance(n, ast.ClassDef) and n.name == cls]
        if len(cs) != 1:
            raise Unsupported('class %s found %d times' % (cls, len(cs)))
        body = cs[0].body
    if nested_in is not None:
        outer = [n for n in body if isinstance(n, ast.FunctionDef) and n.name == nested_in]
        if len(outer) != 1:
            raise Unsupported('function %s.%s found %d times' % (cls, nested_in, len(outer)))
        body = outer[0].body
    fs = [n for n in body if isinstance(n, ast.FunctionDef) and n.name == func]
    if decorator is not None:
        fs = [n for n in fs if decorator in [ast.unparse(d) for d in n.decorator_list]]
    if len(fs) != 1:
        raise Unsupported('function %s.%s found %d times' % (cls, func, len(fs)))
    return fs[0]


class _Rewrite(ast.NodeTransformer):
    """aliases named by the spec (`rewrite`: {source text of an attribute path: source text that stands for it}; `self_is`:
    what the object itself stands for where it is indexed or iterated over - its __getitem__ / __iter__ delegate there)"""

    def __init__(self, spec):
        self.paths = {k: ast.parse(v, mode='eval').body for k, v in spec.get('rewrite', {}).items()}
        self.self_is = ast.parse(spec['self_is'], mode='eval').body if spec.get('self_is') else None

    def visit_Attribute(self, node):
        text = ast.unparse(node)
        if text in self.paths and isinstance(node.ctx, ast.Load):
            return ast.copy_location(self.paths[text], node)
        return self.generic_visit(node)

    def _self(self, node):
        if self.self_is is not None and isinstance(node, ast.Name) and node.id == 'self':
            return self.self_is
        return node

    def visit_Subscript(self, node):
        node = self.generic_visit(node)
        if isinstance(node.ctx, ast.Load):
            node.value = self._self(node.value)
        return node

    def visit_comprehension(self, node):
        node = self.generic_visit(node)
        node.iter = self._self(node.iter)
        return node

    def visit_For(self, node):
        node = self.generic_visit(node)
        node.iter = self._self(node.iter)
        return node


def translate(source_text, spec, ops):
    tree = ast.parse(source_text)
    fn = find_function(tree, spec.get('cls'), spec['func'], spec.get('nested_in'), spec.get('decorator'))
    if spec.get('rewrite') or spec.get('self_is'):
        fn = ast.fix_missing_locations(_Rewrite(spec).visit(fn))
    return Tr(spec, ops).function(fn)
