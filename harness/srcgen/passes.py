"""gen/SrcPass.v: the recursive passes of the two schedulers (`ForwardScheduler.__forward_pass`,
`BackwardScheduler.__backward_pass` of src/pjplan/schedule.py), translated on every run from the source text
(harness/srcgen/pylite.py) over the data of Sched/Model.v: the WBS as the scheduler sees it after clone() is the static
list `w : list itask` (hierarchy, links, milestone flag, resource, min_start - never written by the pass), what the pass
writes (start, end, estimate, spent of each task) is the list `ds : list dyn`, the usage ledger and the two work lists are
threaded through.  The two primitives the pass calls are the *model's* `fwd_nearest` / `fwd_shift` (`bwd_…`), which
Sched/SrcFillEquiv.v ties to their own source text.  coq/Sched/SrcPassEquiv*.v relates the translated passes to `gpass`."""
import os

from harness.srcgen import pylite

OPS = {'zero': '0', 'fold': 'fold_res', 'sum_opts': 'sum_opts', 'remove1': 'src_remove1'}

HEADER = '''(* GENERATED on every run by harness/srcgen (pylite.py, passes.py) from the source text of
   src/pjplan/schedule.py - do not edit.  A task is its number in the scheduler's view of the WBS (`w : list itask`,
   Sched/Model.v; `_task.id` is that number - ids are unique inside a WBS, property C05); `_task.predecessors`,
   `.children`, `.all_parents`, `.milestone`, `.resource`, `.min_start`, `.wbs != project` read `w`; `_task.start`, `.end`,
   `.estimate`, `.spent` read and write the dynamic part `ds : list dyn`; `resource_usage` is the ledger; `calculated` and
   `in_progress` are Python lists handed down by reference - all four are given back beside the result.  `datetime.now()`
   is `now cfg`, `self.__start` / `self.__end` is `pbound cfg`, `datetime(1970, 1, 1)` is 0; the resource object of a task
   is its number `k_res`; `x or d` on an Optional datetime is x when present; None in arithmetic or in max/min is
   TypeError; max / min of an empty list is ValueError; `sum` of a list with a None is TypeError (`sum_opts`).
   The calls of `__get_resource_nearest_available_date` and `__shift_by_resource_usage_and_calendar` are the model's
   `fwd_nearest` / `fwd_shift` (`bwd_…`), tied to their source by Sched/SrcFillEquiv.v. *)
From PJ Require Import Base.Prelude Sched.Model.
Open Scope Z_scope.

Fixpoint src_remove1 (x : nat) (l : list nat) : list nat :=      (* list.remove: the first occurrence *)
  match l with
  | [] => []
  | y :: r => if Nat.eqb x y then r else y :: src_remove1 x r
  end.

(* lst[i] with Python's index rule (negative from the end, IndexError outside) *)
Definition src_list_get {A : Type} (l : list A) (i : Z) : res A :=
  let n := Z.of_nat (length l) in
  let j := if i <? 0 then n + i else i in
  if (0 <=? j) && (j <? n) then match nth_error l (Z.to_nat j) with Some x => Ok x | None => Crash IndexError end
  else Crash IndexError.

Definition dupd (ds : list dyn) (t : nat) (f : dyn -> dyn) : list dyn := set_nth ds t (f (getdl ds t)).
Definition with_start (v : option Z) (d : dyn) : dyn := {| d_start := v; d_end := d_end d; d_est := d_est d; d_spent := d_spent d |}.
Definition with_end (v : option Z) (d : dyn) : dyn := {| d_start := d_start d; d_end := v; d_est := d_est d; d_spent := d_spent d |}.
Definition with_est (v : option Z) (d : dyn) : dyn := {| d_start := d_start d; d_end := d_end d; d_est := v; d_spent := d_spent d |}.
(* BackwardScheduler.__get_resource_nearest_available_date as the source returns it: the model's [bwd_nearest] already
   contains the day that the pass adds afterwards (Sched/SrcFillEquiv.v: src_bwd_nearest + DAY = bwd_nearest) *)
Definition bwd_nearest_src (cfg : config) (l : ledger) (r t : nat) (t0 : Z) : res Z :=
  do e <- bwd_nearest cfg l r t t0; Ok (e - DAY).
Definition with_spent (v : option Z) (d : dyn) : dyn := {| d_start := d_start d; d_end := d_end d; d_est := d_est d; d_spent := v |}.

'''

NATS = ('list', 'nat')
OPTZ = ('option', 'Z')
STATE = ('ds', 'resource_usage', 'calculated', 'in_progress')


def pass_spec(cls, func, coq, fwd):
    nearest = 'fwd_nearest' if fwd else 'bwd_nearest_src'
    shift = 'fwd_shift' if fwd else 'bwd_shift'
    bound = 'self.__start' if fwd else 'self.__end'
    return dict(
        file='schedule.py', cls=cls, func=func, coq_name=coq,
        heap='ds', heap_type='(list dyn)', heap_get='getdl', heap_upd='dupd', obj_type='nat', state=STATE,
        params={'_task': ('_task', 'nat'), 'ds': ('ds', '(list dyn)'), 'resource_usage': ('resource_usage', 'ledger'),
                'calculated': ('calculated', NATS), 'in_progress': ('in_progress', NATS)},
        ignored_params=('project',),
        signature=[('cfg', 'config'), ('w', '(list itask)'), ('ds', '(list dyn)'), ('resource_usage', 'ledger'),
                   ('calculated', NATS), ('in_progress', NATS), ('_task', 'nat')],
        ret='unit', recursive=True, loops='fold', joins=True,
        or_default=True, none_arith=True, pure_conditions=True, z_minmax=True, remember_writes=True,
        locals={'prerequisites': NATS, 'dependants': NATS, 'children_starts': ('list', 'Z'), 'children_ends': ('list', 'Z'),
                'is_leaf': 'bool', 'task_min_start': 'Z', 'left_hours': 'Z', 'start': 'Z', 'end': 'Z',
                'max_predecessor_ends': 'Z', 'min_successor_starts': 'Z', 'calculated': NATS, 'in_progress': NATS,
                'resource_usage': 'ledger', 'resource': 'nat'},
        expr_rewrites={
            '_task.wbs != project': ('(k_ext (gett w ${_task}))', 'bool'),
            '_task.id': ('${_task}', 'nat'),
            '_task.all_parents': ('(ancestors w (length w) ${_task})', NATS),
            'datetime.now()': ('(now cfg)', 'Z'),
            'datetime(1970, 1, 1)': ('0', 'Z'),
            bound: ('(pbound cfg)', 'Z'),
            'self.__default_estimate': ('(dflt_est cfg)', 'Z'),
            'self.__resources.setdefault(_task.resource, Resource(_task.resource))': ('(k_res (gett w ${_task}))', 'nat'),
        },
        static_attrs={'predecessors': ('(k_preds (gett w %s))', NATS), 'successors': ('(k_succs (gett w %s))', NATS),
                      'children': ('(k_children (gett w %s))', NATS), 'milestone': ('(k_milestone (gett w %s))', 'bool'),
                      'min_start': ('(k_minstart (gett w %s))', OPTZ)},
        obj_attrs={'start': ('d_start', OPTZ), 'end': ('d_end', OPTZ), 'estimate': ('d_est', OPTZ), 'spent': ('d_spent', OPTZ)},
        obj_writes={'start': 'with_start', 'end': 'with_end', 'estimate': 'with_est', 'spent': 'with_spent'},
        calls={'self.__get_resource_nearest_available_date':
               ('apply', nearest + ' cfg ${resource_usage}', ('fun', ['nat', 'nat', 'Z'], 'Z', True), [0, 3, 2])},
        mutators={'self.__shift_by_resource_usage_and_calendar':
                  ('resource_usage', shift + ' cfg', ['nat', 'nat', 'Z', 'Z'], 'Z', [0, 3, 2, 4])},
        state_calls={'self.' + func: (coq + ' $F cfg w', [0], ['nat'])},
        state_args={'self.' + func: {'resource_usage': 2, 'calculated': 3, 'in_progress': 4}},
    )


SPECS = [
    pass_spec('ForwardScheduler', '__forward_pass', 'src_fwd_pass', True),
    pass_spec('BackwardScheduler', '__backward_pass', 'src_bwd_pass', False),
]


# calc's helpers: the two pre-checks over the WBS as given (start / end are the user's values: static) and the reset of
# the summaries on the clone (writes the dynamic part)
STATIC_DATES = {'predecessors': ('(k_preds (gett w %s))', NATS), 'children': ('(k_children (gett w %s))', NATS),
                'start': ('(k_start (gett w %s))', OPTZ), 'end': ('(k_end (gett w %s))', OPTZ)}
SPECS += [
    dict(file='schedule.py', cls=None, func='_validate_graph_isolation', coq_name='src_validate_graph_isolation',
         obj_type='nat', params={}, ignored_params=('project',), signature=[('w', '(list itask)')], ret='unit',
         loops='fold', or_default=True, static_attrs=STATIC_DATES,
         expr_rewrites={'project.tasks': ('(members w)', NATS), 'pr.wbs != project': ('(k_ext (gett w ${pr}))', 'bool')}),
    dict(file='schedule.py', cls='ForwardScheduler', func='__check_no_end_dates_in_future', coq_name='src_check_no_end_dates_in_future',
         obj_type='nat', params={}, ignored_params=('project',), signature=[('cfg', 'config'), ('w', '(list itask)')], ret='unit',
         loops='fold', static_attrs=STATIC_DATES, locals={'now': 'Z'},
         expr_rewrites={'project.tasks': ('(members w)', NATS), 'datetime.now()': ('(now cfg)', 'Z')}),
    dict(file='schedule.py', cls='ForwardScheduler', func='__prepare_tasks', coq_name='src_prepare_tasks',
         heap='ds', heap_type='(list dyn)', heap_get='getdl', heap_upd='dupd', obj_type='nat', state='ds',
         params={'ds': ('ds', '(list dyn)')}, ignored_params=('project',),
         signature=[('w', '(list itask)'), ('ds', '(list dyn)')], ret='unit', loops='fold',
         static_attrs={'children': ('(k_children (gett w %s))', NATS)},
         obj_attrs={'start': ('d_start', OPTZ), 'end': ('d_end', OPTZ), 'estimate': ('d_est', OPTZ), 'spent': ('d_spent', OPTZ)},
         obj_writes={'start': 'with_start', 'end': 'with_end', 'estimate': 'with_est', 'spent': 'with_spent'},
         expr_rewrites={'project.tasks': ('(members w)', NATS)}),
    dict(file='schedule.py', cls='BackwardScheduler', func='__prepare_tasks', coq_name='src_prepare_tasks_bwd',
         heap='ds', heap_type='(list dyn)', heap_get='getdl', heap_upd='dupd', obj_type='nat', state='ds',
         params={'ds': ('ds', '(list dyn)')}, ignored_params=('project',),
         signature=[('w', '(list itask)'), ('ds', '(list dyn)')], ret='unit', loops='fold',
         static_attrs={'children': ('(k_children (gett w %s))', NATS)},
         obj_attrs={'start': ('d_start', OPTZ), 'end': ('d_end', OPTZ), 'estimate': ('d_est', OPTZ), 'spent': ('d_spent', OPTZ)},
         obj_writes={'start': 'with_start', 'end': 'with_end', 'estimate': 'with_est', 'spent': 'with_spent'},
         expr_rewrites={'project.tasks': ('(members w)', NATS)}),
]


# _check_loops / _check_loops_from_task: the depth-first search for a cycle of plain dependencies.  `visited_tasks` is a
# dict of which only the keys matter (membership, insertion, deletion): a list of task numbers; `validated` a set, likewise.
# In the scheduler's view `w` a task outside the WBS has no predecessors of its own (it is a pair of dates): the search ends there.
SPECS += [
    dict(file='schedule.py', cls=None, func='_check_loops_from_task', coq_name='src_check_loops_from_task', obj_type='nat',
         state=('visited_tasks', 'validated'), keysets=('visited_tasks',),
         params={'task': ('task', 'nat'), 'visited_tasks': ('visited_tasks', NATS), 'validated': ('validated', NATS)},
         signature=[('w', '(list itask)'), ('visited_tasks', NATS), ('validated', NATS), ('task', 'nat')], ret='unit',
         recursive=True, loops='fold', locals={'visited_tasks': NATS, 'validated': NATS},
         static_attrs={'predecessors': ('(k_preds (gett w %s))', NATS)},
         expr_rewrites={'task.id': ('${task}', 'nat')},
         state_calls={'_check_loops_from_task': ('src_check_loops_from_task $F w', [0], ['nat'])},
         state_args={'_check_loops_from_task': {'visited_tasks': 1, 'validated': 2}}),
    dict(file='schedule.py', cls=None, func='_check_loops', coq_name='src_check_loops', obj_type='nat', loops='fold',
         params={}, ignored_params=('project',), signature=[('w', '(list itask)')], ret='unit',
         locals={'validated': NATS},
         expr_rewrites={'project.tasks': ('(members w)', NATS)},
         rebind_calls={'_check_loops_from_task': ('src_check_loops_from_task (S (length w)) w [] ${validated} $0',
                                                  '((_, %validated), _)', ['validated'], [0], ['nat'], {1: '{}', 2: 'validated'})}),
]

# WBS.start / WBS.end (wbs.py): earliest start / latest end over the root tasks of a (scheduled) WBS
def wbs_date(func, coq, attr, getter):
    return dict(file='wbs.py', cls='WBS', func=func, decorator='property', coq_name=coq, heap='ds', heap_type='(list dyn)',
                heap_get='getdl', heap_upd='dupd', obj_type='nat', params={}, signature=[('w', '(list itask)'), ('ds', '(list dyn)')],
                ret=OPTZ, locals={'starts': ('list', 'Z'), 'ends': ('list', 'Z')}, int_truth=True, z_minmax=True,
                obj_attrs={attr: (getter, OPTZ)},
                expr_rewrites={'self.roots': ('(roots w)', NATS), 'self.__root.children': ('(roots w)', NATS)})


SPECS += [wbs_date('start', 'src_wbs_start', 'start', 'd_start'), wbs_date('end', 'src_wbs_end', 'end', 'd_end')]

# calc itself: the pre-checks, the reset of the summaries, one call of the pass per root (forward: in order; backward: by
# descending index), the result.  `wbs.clone()` is the scheduler's own view of the WBS (`w` with the values `ds` - C10 is the
# property about clone), `_check_loops` is not translated (it raises on dependency cycles only, which no WBS built through
# the public API has - C01), the `Schedule(...)` that is returned is the triple (dates and amounts, usage rows, calculated ids).
CALCRES = '((list dyn) * ledger * (list nat))'


def calc_spec(cls, coq, fwd):
    wname = 'wbs' if fwd else 'project'
    cname = 'forward' if fwd else 'backward'
    ru = cname + '_resource_usage'
    passfn = 'self.__forward_pass' if fwd else 'self.__backward_pass'
    coqpass = 'src_fwd_pass' if fwd else 'src_bwd_pass'
    calls = {'_validate_graph_isolation': ('apply', 'src_validate_graph_isolation w', ('fun', [], 'unit', True), [])}
    if fwd:
        calls['self.__check_no_end_dates_in_future'] = ('apply', 'src_check_no_end_dates_in_future cfg w', ('fun', [], 'unit', True), [])
    ret_text = 'Schedule(%s, list(self.__resources.values()), ResourceUsageReport(%s.rows))' % (cname, ru)
    return dict(
        file='schedule.py', cls=cls, func='calc', coq_name=coq, obj_type='nat', loops='fold',
        params={'ds': ('ds', '(list dyn)')}, ignored_params=(wname,),
        signature=[('cfg', 'config'), ('w', '(list itask)'), ('ds', '(list dyn)')], ret=CALCRES,
        locals={'ds': '(list dyn)', ru: 'ledger', 'calculated': NATS, cname: 'unit', 'backward_roots': NATS},
        calls=calls, ignored_calls=('_check_loops',),
        expr_rewrites={wname + '.clone()': ('tt', 'unit'), '_ResourceUsage()': ('[]', 'ledger'),
                       cname + '.roots': ('(roots w)', NATS),
                       ret_text: ('(${ds}, ${%s}, ${calculated})' % ru, CALCRES)},
        rebind_calls={
            'self.__prepare_tasks': ('%s w ${ds}' % ('src_prepare_tasks' if fwd else 'src_prepare_tasks_bwd'), '(%ds, _)', ['ds'], [], [], {0: cname}),
            passfn: ('%s (S (S (length w))) cfg w ${ds} ${%s} ${calculated} [] $0' % (coqpass, ru),
                     '((%%ds, %%%s, %%calculated, _), _)' % ru, ['ds', ru, 'calculated'], [0], ['nat'],
                     {1: cname, 2: ru, 3: 'calculated', 4: '[]'}),
        })


OPS['list_get'] = 'src_list_get'
SPECS += [calc_spec('ForwardScheduler', 'src_forward_calc', True), calc_spec('BackwardScheduler', 'src_backward_calc', False)]


def emit(repo):
    texts = [HEADER]
    problems = []
    path = os.path.join(repo, 'src', 'pjplan', 'schedule.py')
    try:
        with open(path, encoding='utf-8') as f:
            src = f.read()
    except OSError as e:
        return '', ['schedule.py: %s' % e]
    sources = {'schedule.py': src}
    for sp in SPECS:
        try:
            fname = sp.get('file', 'schedule.py')
            if fname not in sources:
                with open(os.path.join(repo, 'src', 'pjplan', fname), encoding='utf-8') as f:
                    sources[fname] = f.read()
            texts.append('(* %s: %s.%s *)\n' % (fname, sp['cls'], sp['func']))
            texts.append(pylite.translate(sources[fname], dict(sp), OPS) + '\n')
        except (pylite.Unsupported, SyntaxError, OSError) as e:
            problems.append('%s %s.%s: %s' % (sp.get('file', 'schedule.py'), sp.get('cls'), sp['func'], e))
    return ''.join(texts), problems


if __name__ == '__main__':
    import sys
    t, p = emit(sys.argv[1] if len(sys.argv) > 1 else '/repo')
    print(t)
    print(p, file=sys.stderr)
