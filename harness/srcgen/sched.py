"""gen/SrcSched.v: the reading side of the usage ledger of src/pjplan/schedule.py (`_ResourceUsage.__get_key`,
`_ResourceUsage.reserved`) translated on every run from the source text (harness/srcgen/pylite.py), over exact integer
amounts.  coq/Sched/SrcSchedEquiv.v proves the translated `reserved` equal to `booked` / `booked_t` of Sched/Model.v -
the quantity that the over-allocation theorems of C03 (and C04, C08, C09 through `used`) subtract from the capacity."""
import os

from harness.srcgen import pylite

OPS = {'add': 'Z.add', 'sub': 'Z.sub', 'mul': 'Z.mul', 'zero': '0', 'ltb': 'Z.ltb', 'is0': '(Z.eqb 0)', 'divide': 'zdivide',
       'min': 'Z.min', 'max': 'Z.max'}

HEADER = '''(* GENERATED on every run by harness/srcgen (pylite.py, sched.py) from the source text of
   src/pjplan/schedule.py - do not edit.  Amounts are exact integers (the scaled unit of Sched/Model.v); a usage row
   is the record the code appends: resource and task are object identities (numbers here), the date is a datetime. *)
From PJ Require Import Base.Prelude.

Notation num := Z (only parsing).
Definition zdivide (a b : Z) : res Z := if b =? 0 then Crash ZeroDivisionError else Ok (a / b).

Record srow := { s_res : nat; s_date : Z; s_task : nat; s_units : Z }.

'''

ROW = ('rec', 'srow')

SPECS = [
    dict(file='schedule.py', cls='_ResourceUsage', func='__get_key', coq_name='src_usage_key',
         params={'date': ('date', 'Z')}, signature=[('date', 'Z')], ret='Z'),
    dict(file='schedule.py', cls='_ResourceUsage', func='reserved', coq_name='src_reserved',
         fields={'self.rows': ('rows', ('list', ROW))},
         params={'resource': ('resource', 'nat'), 'date': ('date', 'Z'), 'task': ('task', ('option', 'nat'))},
         defaults={'task': 'None'},
         signature=[('rows', ('list', ROW)), ('resource', 'nat'), ('date', 'Z'), ('task', ('option', 'nat'))],
         ret='num', locals={'units': ('list', 'num')},
         attrs={'units': ('s_units', ROW, 'num'), 'resource': ('s_res', ROW, 'nat'), 'date': ('s_date', ROW, 'Z'),
                'task': ('s_task', ROW, 'nat')},
         calls={'self.__get_key': ('apply', 'src_usage_key_pure', ('fun', ['Z'], 'Z', False), [0])}),
]

# `self.__get_key(date)` sits inside a comprehension filter, which must be a pure expression: the translated
# __get_key is total (proved: src_usage_key_total), the filter uses its value.
MIDDLE = '''
Definition src_usage_key_pure (date : Z) : Z := match src_usage_key date with Ok k => k | _ => 0 end.

'''


def emit(repo):
    texts = [HEADER]
    problems = []
    path = os.path.join(repo, 'src', 'pjplan', 'schedule.py')
    try:
        with open(path, encoding='utf-8') as f:
            src = f.read()
    except OSError as e:
        return '', ['schedule.py: %s' % e]
    for i, sp in enumerate(SPECS):
        try:
            texts.append('(* schedule.py: %s.%s *)\n' % (sp['cls'], sp['func']))
            texts.append(pylite.translate(src, sp, OPS) + '\n')
            if i == 0:
                texts.append(MIDDLE)
        except (pylite.Unsupported, SyntaxError) as e:
            problems.append('schedule.py %s.%s: %s' % (sp.get('cls'), sp['func'], e))
    return ''.join(texts), problems


if __name__ == '__main__':
    import sys
    t, p = emit(sys.argv[1] if len(sys.argv) > 1 else '/repo')
    print(t)
    print(p, file=sys.stderr)
