"""gen/SrcCal.v: Gallina definitions translated on every run from the source text of src/pjplan/calendar.py and
src/pjplan/resource.py (harness/srcgen/pylite.py).  coq/Cal/SrcCalEquiv.v proves each of them equal to the
hand-written model of Cal/Calendar.v for all inputs."""
import os

from harness.srcgen import pylite

OPS = {'add': 'nadd', 'sub': 'nsub', 'mul': 'nmul', 'zero': 'nzero', 'ltb': 'nltb', 'is0': 'nis0', 'divide': 'sdivide'}

CALFN = ('fun', ['Z'], ('option', 'num'), True)       # a calendar seen through get_available_units(date)
ONUM = ('option', 'num')

HEADER = '''(* GENERATED on every run by harness/srcgen (pylite.py, cal.py) from the source text of
   src/pjplan/calendar.py and src/pjplan/resource.py - do not edit.
   Python conventions fixed by the translator (trusted, listed in DESIGN section 5): datetimes are integer
   microseconds; `x / y` on numbers raises ZeroDivisionError when y == 0 (sdivide); a dict is the list of its
   insertions, later insertions win (assoc_get); `datetime(d.year, d.month, d.day, 0, 0, 0, 0)` is day_start d;
   `timedelta(days=k)` is k * DAY; RuntimeError is Err, other exceptions are Crash. *)
From PJ Require Import Base.Prelude.

Definition assoc_get {K V : Type} (eqb : K -> K -> bool) (d : list (K * V)) (k : K) : option V :=
  fold_left (fun acc kv => if eqb (fst kv) k then Some (snd kv) else acc) d None.

Section SrcCal.
Context {num : Type}.
Variables (nadd nsub nmul ndiv : num -> num -> num) (nzero : num).
Variable nltb : num -> num -> bool.
Variable nis0 : num -> bool.

Definition sdivide (a b : num) : res num := if nis0 b then Crash ZeroDivisionError else Ok (ndiv a b).

'''

FOOTER = '''
End SrcCal.
'''


def combinator(cls, coq):
    return dict(file='calendar.py', cls=cls, func='get_available_units', coq_name=coq,
                fields={'self.__calendars': ('calendars', ('list', CALFN))},
                params={'date': ('date', 'Z')},
                signature=[('calendars', ('list', CALFN)), ('date', 'Z')],
                ret=ONUM, locals={'units': ONUM, 'c_units': ONUM},
                calls={'.get_available_units': ('apply_recv', [0])})


SPECS = [
    dict(file='calendar.py', cls=None, func='_day_start', coq_name='src_day_start',
         params={'d': ('d', 'Z')}, signature=[('d', 'Z')], ret='Z'),
    combinator('WorkCalendarDisjunction', 'src_disj_units'),
    combinator('WorkCalendarSum', 'src_sum_units'),
    combinator('WorkCalendarSub', 'src_sub_units'),
    combinator('WorkCalendarsMul', 'src_mul_units'),
    combinator('WorkCalendarDiv', 'src_div_units'),
    dict(file='calendar.py', cls='FixedCalendar', func='get_available_units', coq_name='src_fixed_units',
         fields={'self.__units': ('units', 'num'), 'self.__start': ('start', ('option', 'Z')), 'self.__end': ('end_', ('option', 'Z'))},
         params={'date': ('date', 'Z')},
         signature=[('units', 'num'), ('start', ('option', 'Z')), ('end_', ('option', 'Z')), ('date', 'Z')], ret=ONUM),
    dict(file='calendar.py', cls='DirectCalendar', func='get_available_units', coq_name='src_direct_units',
         fields={'self.__units': ('units', ('assoc', 'Z', 'num'))},
         params={'date': ('date', 'Z')},
         signature=[('units', ('assoc', 'Z', 'num')), ('date', 'Z')], ret=ONUM,
         calls={'_day_start': ('apply', 'src_day_start', ('fun', ['Z'], 'Z', True), [0])}),
    dict(file='calendar.py', cls='WeeklyCalendar', func='get_available_units', coq_name='src_weekly_units',
         fields={'self.__day_hours': ('day_hours', ('weekmap',)), 'self.__start': ('start', ('option', 'Z')),
                 'self.__end': ('end_', ('option', 'Z'))},
         params={'date': ('date', 'Z')},
         signature=[('start', ('option', 'Z')), ('end_', ('option', 'Z')), ('day_hours', ('weekmap',)), ('date', 'Z')], ret=ONUM,
         calls={'.weekday': ('recv_fn', 'weekday', ('fun', ['Z'], 'Z', False), [])}),
    # constructor validation (RuntimeError = Err); a constructor is translated as its validation, the fields it stores are
    # the arguments (checked by the translator)
    dict(file='calendar.py', cls='FixedCalendar', func='__init__', coq_name='src_fixed_init',
         params={'units': ('units', 'num'), 'start': ('start', ('option', 'Z')), 'end': ('end_', ('option', 'Z'))},
         defaults={'start': 'None', 'end': 'None'},
         stores={'self.__units': 'units', 'self.__start': 'start', 'self.__end': 'end'},
         signature=[('units', 'num'), ('start', ('option', 'Z')), ('end_', ('option', 'Z'))], ret='unit'),
    dict(file='calendar.py', cls='WeeklyCalendar', func='__check_start_end', coq_name='src_check_start_end',
         params={'start': ('start', ('option', 'Z')), 'end': ('end_', ('option', 'Z'))},
         signature=[('start', ('option', 'Z')), ('end_', ('option', 'Z'))], ret='unit'),
    dict(file='calendar.py', cls='WeeklyCalendar', func='__check_working_days', coq_name='src_check_working_days',
         params={'working_days': ('working_days', ('option', ('list', 'Z')))},
         signature=[('working_days', ('option', ('list', 'Z')))], ret='unit'),
    # WeeklyCalendar.__init__, once per form of the arguments (the `type(...) is ...` tests are decided by the form): the week
    # table it builds, as a list read with nth afterwards (src_weekly_units)
    dict(file='calendar.py', cls='WeeklyCalendar', func='__init__', coq_name='src_weekly_init_days',
         params={'start': ('start', ('option', 'Z')), 'end': ('end_', ('option', 'Z')), 'days': ('days', ('list', 'Z')),
                 'units_per_day': ('units_per_day', 'num')},
         signature=[('start', ('option', 'Z')), ('end_', ('option', 'Z')), ('days', ('list', 'Z')), ('units_per_day', 'num')],
         ret=('list', 'num'), locals={'tbl': ('list', 'num')},
         table_fields={'self.__day_hours': ('tbl', ('list', 'num'))}, result_field='self.__day_hours',
         stores={'self.__start': 'start', 'self.__end': 'end'},
         expr_rewrites={'type(units_per_day) is float or type(units_per_day) is int': ('true', 'bool'),
                        'type(units_per_day) is dict': ('false', 'bool')},
         calls={'WeeklyCalendar.__check_working_days': ('apply', 'src_check_working_days', ('fun', [('option', ('list', 'Z'))], 'unit', True), [0]),
                'WeeklyCalendar.__check_start_end': ('apply', 'src_check_start_end', ('fun', [('option', 'Z'), ('option', 'Z')], 'unit', True), [0, 1])}),
    dict(file='calendar.py', cls='WeeklyCalendar', func='__init__', coq_name='src_weekly_init_dict',
         params={'start': ('start', ('option', 'Z')), 'end': ('end_', ('option', 'Z')), 'days': ('None', 'none'),
                 'units_per_day': ('units_per_day', ('assoc', 'Z', 'num'))},
         signature=[('start', ('option', 'Z')), ('end_', ('option', 'Z')), ('units_per_day', ('assoc', 'Z', 'num'))],
         ret=('list', 'num'), locals={'tbl': ('list', 'num'), 'val': 'num'},
         table_fields={'self.__day_hours': ('tbl', ('list', 'num'))}, result_field='self.__day_hours',
         stores={'self.__start': 'start', 'self.__end': 'end'},
         expr_rewrites={'type(units_per_day) is float or type(units_per_day) is int': ('false', 'bool'),
                        'type(units_per_day) is dict': ('true', 'bool'),
                        'list(units_per_day.keys())': ('(map fst ${units_per_day})', ('list', 'Z'))},
         calls={'WeeklyCalendar.__check_working_days': ('apply', 'src_check_working_days', ('fun', [('option', ('list', 'Z'))], 'unit', True), [0]),
                'WeeklyCalendar.__check_start_end': ('apply', 'src_check_start_end', ('fun', [('option', 'Z'), ('option', 'Z')], 'unit', True), [0, 1])}),
    dict(file='resource.py', cls='Resource', func='get_available_units', coq_name='src_resource_units',
         fields={'self.calendar': ('calendar', CALFN)},
         params={'date': ('date', 'Z')}, ignored_params=('task',),
         signature=[('calendar', CALFN), ('date', 'Z')], ret='num', locals={'units': ONUM},
         calls={'.get_available_units': ('apply_recv', [0])}),
    dict(file='resource.py', cls='IResource', func='get_nearest_availability_date', coq_name='src_nearest',
         params={'start_date': ('start_date', 'Z'), 'direction': ('direction', 'Z'), 'max_days': ('max_days', 'Z')},
         signature=[('gau', ('fun', ['Z'], 'num', True)), ('start_date', 'Z'), ('direction', 'Z'), ('max_days', 'Z')],
         ret='Z', locals={'step': 'Z', 'start_date': 'Z'},
         while_fuel='(S (Z.to_nat max_days))',
         calls={'self.get_available_units': ('apply', 'gau', ('fun', ['Z'], 'num', True), [0])}),
]


def emit(repo):
    texts = [HEADER]
    problems = []
    cache = {}
    for sp in SPECS:
        path = os.path.join(repo, 'src', 'pjplan', sp['file'])
        try:
            if path not in cache:
                with open(path, encoding='utf-8') as f:
                    cache[path] = f.read()
            texts.append('(* %s: %s%s *)\n' % (sp['file'], (sp['cls'] + '.') if sp.get('cls') else '', sp['func']))
            texts.append(pylite.translate(cache[path], sp, OPS) + '\n')
        except (pylite.Unsupported, OSError, SyntaxError) as e:
            problems.append('%s %s.%s: %s' % (sp['file'], sp.get('cls'), sp['func'], e))
    texts.append(FOOTER)
    return ''.join(texts), problems


if __name__ == '__main__':
    import sys
    t, p = emit(sys.argv[1] if len(sys.argv) > 1 else '/repo')
    print(t)
    print(p, file=sys.stderr)
