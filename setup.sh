#!/bin/bash
# Build the Coq development from files on disk only (offline).
cd "$(dirname "$0")" || exit 2
export PYTHONHASHSEED=0
export PYTHONDONTWRITEBYTECODE=1
exec /venv/bin/python -m harness.build --jobs 16
