#!/venv/bin/python
"""Mechanical mutation run: small syntactic changes of /repo's source (one per mutant), kept when the 84 baseline
tests still pass, then the checks of the properties anchored in the changed file are run against the mutant until one
reports it.  A survivor is either an equivalent mutant or a gap of the checks - the list is what this tool is for.
It complements the seeded changes written by sub-agents (seeded/): those are realistic and specific, these are
dumb and many.

usage: tools/mutate.py [--n 120] [--seed 1] [--files task.py,schedule.py,...] [--out out/mutation.json]
Works on scratch copies only (a git worktree of /repo under /tmp per mutant, removed afterwards); checks run with
PJPLAN_REPO pointing at it.  Evidence files are saved and restored."""
import argparse
import ast
import copy
import json
import os
import random
import shutil
import subprocess
import sys
import tempfile

VERIF = os.path.dirname(os.path.dirname(os.path.abspath(__file__)))
REPO = '/repo'

FILES = {
    'src/pjplan/task.py': ['C01', 'C05', 'C11', 'C15', 'C16', 'C18', 'C10', 'C20'],
    'src/pjplan/wbs.py': ['C05', 'C10', 'C11', 'C16', 'C18', 'C12'],
    'src/pjplan/schedule.py': ['C02', 'C03', 'C04', 'C07', 'C08', 'C09', 'C06', 'C14', 'C20'],
    'src/pjplan/calendar.py': ['C17', 'C03'],
    'src/pjplan/resource.py': ['C17', 'C03', 'C14'],
    'src/pjplan/alg/critical_path.py': ['C12'],
    'src/pjplan/io/csv_io.py': ['C13'],
    'src/pjplan/io/raw.py': ['C13'],
    'src/pjplan/viz/mermaid/gantt.py': ['C19'],
    'src/pjplan/viz/mermaid/network.py': ['C19'],
    'src/pjplan/viz/dhtmlx/gantt.py': ['C19'],
    'src/pjplan/utils.py': ['C20'],
}

CMP = {ast.Lt: ast.LtE, ast.LtE: ast.Lt, ast.Gt: ast.GtE, ast.GtE: ast.Gt, ast.Eq: ast.NotEq, ast.NotEq: ast.Eq,
       ast.Is: ast.IsNot, ast.IsNot: ast.Is, ast.In: ast.NotIn, ast.NotIn: ast.In}
BIN = {ast.Add: ast.Sub, ast.Sub: ast.Add, ast.Mult: ast.Div, ast.Div: ast.Mult}


class Sites(ast.NodeVisitor):
    """collects (kind, node) mutation sites"""

    def __init__(self):
        self.sites = []
        self.in_doc = False

    def generic_visit(self, node):
        if isinstance(node, ast.Compare) and len(node.ops) == 1 and type(node.ops[0]) in CMP:
            self.sites.append(('cmp', node))
        if isinstance(node, ast.BoolOp):
            self.sites.append(('bool', node))
        if isinstance(node, ast.BinOp) and type(node.op) in BIN:
            self.sites.append(('bin', node))
        if isinstance(node, ast.Constant) and isinstance(node.value, int) and not isinstance(node.value, bool) and abs(node.value) < 1000:
            self.sites.append(('const', node))
        if isinstance(node, ast.Constant) and isinstance(node.value, bool):
            self.sites.append(('boolconst', node))
        if isinstance(node, (ast.If, ast.While)):
            self.sites.append(('negate', node))
        if isinstance(node, (ast.FunctionDef, ast.For, ast.While, ast.If, ast.With)):
            body = node.body
            for i, st in enumerate(body):
                if isinstance(st, (ast.Expr, ast.Assign, ast.AugAssign, ast.Raise, ast.Return, ast.Continue)) and len(body) > 1 \
                        and not (isinstance(st, ast.Expr) and isinstance(st.value, ast.Constant)):
                    self.sites.append(('drop', (node, i)))
        if isinstance(node, ast.Call) and len(node.args) >= 2:
            self.sites.append(('swapargs', node))
        super().generic_visit(node)


def apply(kind, node, rng):
    """mutates in place; returns a short description"""
    if kind == 'cmp':
        old = type(node.ops[0])
        node.ops[0] = CMP[old]()
        return '%s -> %s' % (old.__name__, CMP[old].__name__)
    if kind == 'bool':
        old = type(node.op)
        node.op = ast.Or() if isinstance(node.op, ast.And) else ast.And()
        return '%s -> %s' % (old.__name__, type(node.op).__name__)
    if kind == 'bin':
        old = type(node.op)
        node.op = BIN[old]()
        return '%s -> %s' % (old.__name__, BIN[old].__name__)
    if kind == 'const':
        old = node.value
        node.value = old + rng.choice([1, -1])
        return 'constant %r -> %r' % (old, node.value)
    if kind == 'boolconst':
        node.value = not node.value
        return 'constant %r -> %r' % (not node.value, node.value)
    if kind == 'negate':
        node.test = ast.UnaryOp(op=ast.Not(), operand=node.test)
        return '%s condition negated' % type(node).__name__
    if kind == 'drop':
        parent, i = node
        st = parent.body[i]
        parent.body[i] = ast.Pass()
        return 'statement dropped: %s' % ast.unparse(st)[:70]
    if kind == 'swapargs':
        node.args[0], node.args[1] = node.args[1], node.args[0]
        return 'first two arguments swapped in %s(...)' % ast.unparse(node.func)[:40]
    raise ValueError(kind)


def run(cmd, **kw):
    return subprocess.run(cmd, capture_output=True, text=True, **kw)


def main():
    ap = argparse.ArgumentParser()
    ap.add_argument('--n', type=int, default=120)
    ap.add_argument('--seed', type=int, default=1)
    ap.add_argument('--files', default='')
    ap.add_argument('--out', default=os.path.join(VERIF, 'out', 'mutation.json'))
    args = ap.parse_args()
    rng = random.Random('mutate/%d' % args.seed)
    files = [f for f in FILES if not args.files or os.path.basename(f) in args.files.split(',')]
    # candidate sites per file
    cands = []
    for f in files:
        src = open(os.path.join(REPO, f), encoding='utf-8').read()
        tree = ast.parse(src)
        s = Sites()
        s.visit(tree)
        for ix in range(len(s.sites)):
            cands.append((f, ix))
    rng.shuffle(cands)
    results = []
    done = 0
    for f, ix in cands:
        if done >= args.n:
            break
        src = open(os.path.join(REPO, f), encoding='utf-8').read()
        tree = ast.parse(src)
        s = Sites()
        s.visit(tree)
        kind, node = s.sites[ix]
        line = getattr(node if kind != 'drop' else node[0].body[node[1]], 'lineno', 0)
        try:
            desc = apply(kind, node, rng)
            new = ast.unparse(ast.fix_missing_locations(tree))
        except Exception as e:  # noqa
            continue
        wt = tempfile.mkdtemp(prefix='mutwt-', dir='/tmp')
        os.rmdir(wt)
        run(['git', '-C', REPO, 'worktree', 'add', '-q', '--detach', wt, 'HEAD'])
        try:
            with open(os.path.join(wt, f), 'w', encoding='utf-8') as fh:
                fh.write(new + '\n')
            t = run(['/venv/bin/python', '-m', 'pytest', '-q', '-p', 'no:cacheprovider', '--timeout=120'], cwd=wt)
            last = t.stdout.strip().split('\n')[-1] if t.stdout.strip() else ''
            if '84 passed' not in last:
                continue                       # killed by the baseline tests (or does not import): not interesting
            done += 1
            rec = {'file': f, 'line': line, 'kind': kind, 'what': desc, 'caught_by': None, 'runs': []}
            env = dict(os.environ, PJPLAN_REPO=wt)
            for p in FILES[f]:
                ev = os.path.join(VERIF, 'evidence', p + '.json')
                bak = ev + '.mutbak'
                if os.path.exists(ev):
                    shutil.copy(ev, bak)
                c = run([os.path.join(VERIF, 'check'), p, '--tier', 'quick'], env=env, cwd=VERIF)
                if os.path.exists(bak):
                    shutil.move(bak, ev)
                viol = [l for l in c.stdout.split('\n') if l.startswith('VIOLATION')]
                rec['runs'].append([p, c.returncode, 'no-failing-input-found' in ' '.join(viol)])
                if c.returncode != 0 and viol:
                    rec['caught_by'] = p
                    rec['failing_input'] = 'no-failing-input-found' not in ' '.join(viol)
                    break
            results.append(rec)
            print('%3d %-34s:%-4d %-9s %-60s -> %s' % (done, f[11:], line, kind, desc[:60],
                                                      (rec['caught_by'] + ('' if rec.get('failing_input') else ' (broken tie only)')) if rec['caught_by'] else 'SURVIVED'), flush=True)
            os.makedirs(os.path.dirname(args.out), exist_ok=True)
            with open(args.out, 'w', encoding='utf-8') as fh:
                json.dump(results, fh, indent=1)
        finally:
            run(['git', '-C', REPO, 'worktree', 'remove', '--force', wt])
    surv = [r for r in results if not r['caught_by']]
    print('mutants kept (84 tests pass): %d, reported by a check: %d, survived: %d' % (len(results), len(results) - len(surv), len(surv)))


if __name__ == '__main__':
    main()
