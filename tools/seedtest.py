#!/venv/bin/python
"""Run checks against a seeded change without touching /repo: a scratch worktree of /repo's HEAD gets the
patch, the checks run with PJPLAN_REPO pointing at it, evidence files are saved and restored.

usage: tools/seedtest.py <seed-dir-with-patch.diff> <Cxx> [<Cyy> ...] [--tier quick]
prints one line per check: property, exit code, VIOLATION lines."""
import os
import shutil
import subprocess
import sys
import tempfile

VERIF = os.path.dirname(os.path.dirname(os.path.abspath(__file__)))


def main():
    args = [a for a in sys.argv[1:] if not a.startswith('--')]
    tier = 'quick'
    if '--tier' in sys.argv:
        tier = sys.argv[sys.argv.index('--tier') + 1]
        args = [a for a in args if a != tier]
    seed, props = args[0], args[1:]
    patch = os.path.join(seed, 'patch.diff')
    wt = tempfile.mkdtemp(prefix='seedwt-', dir='/tmp')
    os.rmdir(wt)
    subprocess.run(['git', '-C', '/repo', 'worktree', 'add', '-q', '--detach', wt, 'HEAD'], check=True)
    try:
        demo = os.path.join(seed, 'demo.py')
        if os.path.exists(demo):
            d = subprocess.run(['/venv/bin/python', os.path.abspath(demo)], env=dict(os.environ, PYTHONPATH=wt + '/src'),
                               capture_output=True, text=True, cwd=seed)
            print('demo on unchanged tree: exit %d' % d.returncode)
        r = subprocess.run(['git', '-C', wt, 'apply', os.path.abspath(patch)], capture_output=True, text=True)
        if r.returncode != 0:
            # the patch was written against an older HEAD: merge it (context drift from later fix commits)
            r3 = subprocess.run(['git', '-C', wt, 'apply', '--3way', os.path.abspath(patch)], capture_output=True, text=True)
            if r3.returncode != 0:
                print('PATCH DOES NOT APPLY: ' + r.stderr.strip())
                return 2
            subprocess.run(['git', '-C', wt, 'reset', '-q'])
            print('patch applied with --3way (context drift)')
        if os.path.exists(demo):
            d = subprocess.run(['/venv/bin/python', os.path.abspath(demo)], env=dict(os.environ, PYTHONPATH=wt + '/src'),
                               capture_output=True, text=True, cwd=seed)
            print('demo on changed tree: exit %d' % d.returncode)
        t = subprocess.run(['/venv/bin/python', '-m', 'pytest', '-q', '-p', 'no:cacheprovider'], cwd=wt, capture_output=True, text=True)
        print('tests on changed tree: ' + t.stdout.strip().split('\n')[-1])
        env = dict(os.environ, PJPLAN_REPO=wt)
        for p in props:
            ev = os.path.join(VERIF, 'evidence', p + '.json')
            bak = ev + '.seedbak'
            if os.path.exists(ev):
                shutil.copy(ev, bak)
            c = subprocess.run([os.path.join(VERIF, 'check'), p, '--tier', tier], env=env, capture_output=True, text=True, cwd=VERIF)
            lines = [l for l in c.stdout.split('\n') if l.startswith('VIOLATION') or l.startswith('KNOWN-FINDING')]
            last = c.stdout.strip().split('\n')[-1] if c.stdout.strip() else ''
            print('%s exit=%d %s | %s' % (p, c.returncode, ' ; '.join(lines[:4]), last[:200]))
            if os.path.exists(bak):
                shutil.move(bak, ev)
            elif os.path.exists(ev):
                os.remove(ev)
    finally:
        subprocess.run(['git', '-C', '/repo', 'worktree', 'remove', '--force', wt])
    return 0


if __name__ == '__main__':
    sys.exit(main())
