#!/bin/bash
# runs the thorough tier of every registered check (used in the background through `vp run`)
cd "$(dirname "$0")/.." || exit 2
./setup.sh > /dev/null 2>&1
for p in $(/venv/bin/python -c "import json; print(' '.join(c['property_id'] for c in json.load(open('MANIFEST.json'))['checks']))"); do
  VERIF_SEED=${VERIF_SEED:-7} ./check $p --tier thorough 2>&1 | grep -v WARNING | tail -3
done
