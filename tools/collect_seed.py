#!/venv/bin/python
"""Collect a seeded change written by a sub-agent: copy <src>/<id>/{patch.diff,demo.py,NOTES.md} to seeded/<id>/,
confirm it in a scratch worktree (tools/seedtest.py: demo exits 0 without and 1 with the patch, the 84 baseline tests
pass with it), run the check of its property against the patched worktree, and write seeded/<id>/meta.json.

usage: tools/collect_seed.py <src-dir> <id> [<id> ...]      (src-dir e.g. /tmp/seedout)
A seed that fails the confirmation is not kept (its directory is removed) and the reason is printed."""
import json
import os
import re
import shutil
import subprocess
import sys

VERIF = os.path.dirname(os.path.dirname(os.path.abspath(__file__)))


def notes_fields(text):
    summary = needs = ''
    for line in text.split('\n'):
        l = line.strip().lstrip('#').strip()
        if l.lower().startswith('summary:') and not summary:
            summary = l.split(':', 1)[1].strip()
        if l.lower().startswith('needs:') and not needs:
            needs = l.split(':', 1)[1].strip()
    return summary, needs


def main():
    src, ids = sys.argv[1], sys.argv[2:]
    for sid in ids:
        prop = sid.split('-')[0]
        s = os.path.join(src, sid)
        d = os.path.join(VERIF, 'seeded', sid)
        if not os.path.exists(os.path.join(s, 'patch.diff')) or not os.path.exists(os.path.join(s, 'demo.py')):
            print('%s: incomplete (no patch.diff / demo.py)' % sid)
            continue
        os.makedirs(d, exist_ok=True)
        for f in ('patch.diff', 'demo.py', 'NOTES.md'):
            if os.path.exists(os.path.join(s, f)):
                shutil.copy(os.path.join(s, f), os.path.join(d, f))
        files = re.findall(r'^diff --git a/(\S+)', open(os.path.join(d, 'patch.diff'), encoding='utf-8').read(), re.M)
        r = subprocess.run([os.path.join(VERIF, 'tools', 'seedtest.py'), d, prop], capture_output=True, text=True, cwd=VERIF)
        out = r.stdout + r.stderr
        demo0 = 'demo on unchanged tree: exit 0' in out
        m1 = re.search(r'demo on changed tree: exit (\d+)', out)
        demo1 = bool(m1) and m1.group(1) != '0'
        mt = re.search(r'(\d+) failed, (\d+) passed', out)
        tests_ok = bool(mt) and mt.group(2) == '84' and mt.group(1) == '4'
        mc = re.search(r'^%s exit=(\d+) (.*)$' % prop, out, re.M)
        rc = int(mc.group(1)) if mc else None
        line = mc.group(2) if mc else ''
        nofail = 'no-failing-input-found' in line
        bad_files = [f for f in files if not f.startswith('src/pjplan/')]
        if not (demo0 and demo1 and tests_ok) or bad_files or 'PATCH DOES NOT APPLY' in out:
            print('%s: NOT CONFIRMED demo0=%s demo1=%s tests=%s files=%s\n%s' % (sid, demo0, demo1, mt.group(0) if mt else None, files, out[-1500:]))
            shutil.rmtree(d)
            continue
        if rc == 1 and 'VIOLATION' in line and not nofail:
            status = 'caught at the first run'
        elif rc == 1 and nofail:
            status = 'first run: no-failing-input-found only'
        elif rc == 0:
            status = 'MISSED at the first run'
        else:
            status = 'first run: check did not complete (exit %s)' % rc
        notes = open(os.path.join(d, 'NOTES.md'), encoding='utf-8').read() if os.path.exists(os.path.join(d, 'NOTES.md')) else ''
        summary, needs = notes_fields(notes)
        meta = {
            'seed': sid, 'property': prop,
            'origin': 'written by a fresh sub-agent that saw only the property text and a scratch worktree of /repo (nothing from /verif)',
            'summary': summary, 'needs': needs, 'files_touched': files,
            'what_it_breaks_and_needs': notes,
            'verified_by_integrator': 'tools/seedtest.py: patch applies to a scratch worktree of /repo HEAD, the 84 baseline tests still '
                                      'pass (4 known clock failures), demo.py exits non-zero with the patch and 0 without',
            'check_result': './check %s --tier quick with PJPLAN_REPO=<patched worktree>: exit %s %s' % (prop, rc, line[:300]),
            'status': status, 'machinery_change': '—' if status == 'caught at the first run' else 'TODO',
        }
        with open(os.path.join(d, 'meta.json'), 'w', encoding='utf-8') as f:
            json.dump(meta, f, indent=1, ensure_ascii=False)
            f.write('\n')
        print('%s: %s | %s' % (sid, status, line[:200]))


if __name__ == '__main__':
    main()
