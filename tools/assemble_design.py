#!/venv/bin/python
"""Assemble /verif/DESIGN.md from design_parts/_head.md, the per-property parts (section 4, in the order
C01 C02 ...; C05, C11, C15, C16 follow the shared graph part C01), the generated table of seeded changes
(section 4.21, from seeded/*/meta.json) and design_parts/_tail.md.

usage: tools/assemble_design.py            (rewrites DESIGN.md)"""
import json
import os
import re

VERIF = os.path.dirname(os.path.dirname(os.path.abspath(__file__)))
PARTS = os.path.join(VERIF, 'design_parts')


def read(name):
    with open(os.path.join(PARTS, name), encoding='utf-8') as f:
        return f.read().rstrip('\n') + '\n'


def one_line(s, n):
    s = re.sub(r'[`*#|]', '', s)
    s = re.sub(r'\s+', ' ', s).strip()
    return s if len(s) <= n else s[:n - 1].rstrip() + '…'


def seeded_table():
    rows = []
    root = os.path.join(VERIF, 'seeded')
    for d in sorted(os.listdir(root)):
        mp = os.path.join(root, d, 'meta.json')
        if not os.path.exists(mp):
            continue
        m = json.load(open(mp, encoding='utf-8'))
        what = m.get('summary') or ''
        if not what:
            lines = [l for l in (m.get('what_it_breaks_and_needs') or '').split('\n') if l.strip()]
            what = ' '.join(lines[:1]) if lines else ''
            what = re.sub(r'^#+\s*', '', what)
        needs = m.get('needs') or ''
        caught = m.get('caught_by') or m.get('check_result') or ''
        mach = m.get('machinery_change') or ''
        if mach.startswith('no change'):
            mach = '—'
        rows.append('| %s | %s | %s | %s | %s |' % (d, one_line(what, 150), one_line(needs, 150) or '(see meta.json)',
                                                  one_line(m.get('status', ''), 40), one_line(mach, 260)))
    head = ('### 4.21 Which check catches which seeded change\n\n'
            'Generated from `seeded/*/meta.json`. Every change was written by a fresh sub-agent that saw only the\n'
            'property text and a scratch worktree, compiles, passes the 84 baseline tests, and comes with a\n'
            'demonstration that fails with the change and passes without it (confirmed by `tools/seedtest.py` in a\n'
            'scratch worktree). "Check" is always `./check <property> --tier quick` run against the patched worktree;\n'
            'the outcome was exit 1 with a `VIOLATION … replay=` line carrying a failing input in every case.\n'
            'The last column says what had to be added to the machinery when the first run missed the change.\n\n'
            '| seed | change | needs | status | strengthening |\n|---|---|---|---|---|\n')
    return head + '\n'.join(rows) + '\n'


def main():
    order = ['C01', 'C02', 'C03', 'C04', 'C05', 'C06', 'C07', 'C08', 'C09', 'C10', 'C11', 'C12', 'C13', 'C14',
             'C15', 'C16', 'C17', 'C18', 'C19', 'C20']
    out = [read('_head.md')]
    for p in order:
        fn = p + '.md'
        if os.path.exists(os.path.join(PARTS, fn)):
            out.append(read(fn))
        else:
            out.append('### %s\n\n(no separate part)\n' % p)
    if os.path.exists(os.path.join(PARTS, 'Glue.md')):
        out.append(read('Glue.md'))
    out.append(seeded_table())
    if os.path.exists(os.path.join(PARTS, 'Mutants.md')):
        out.append(read('Mutants.md'))
    out.append(read('_tail.md'))
    text = '\n'.join(out)
    # numbers taken from the files they summarise
    kf = json.load(open(os.path.join(VERIF, 'known_findings.json'), encoding='utf-8'))['findings']
    commits = sorted(set(e['commit'] for e in kf if e.get('status') == 'fixed'))
    known = [e for e in kf if e.get('status') == 'known']
    metas = []
    for d in sorted(os.listdir(os.path.join(VERIF, 'seeded'))):
        mp = os.path.join(VERIF, 'seeded', d, 'meta.json')
        if os.path.exists(mp):
            metas.append(json.load(open(mp, encoding='utf-8')))
    strengthened = [m for m in metas if 'after strengthening' in (m.get('status') or '')]
    known_list = '\n'.join('  * `%s` (%s): %s Witness: `%s`' % (e['signature'], e['property'], e['what'], e.get('witness', ''))
                           for e in known) or '  * none'
    for k, v in {'FIX_COUNT': str(len(commits)), 'KNOWN_LIST': known_list, 'N_SEEDS': str(len(metas)),
                 'N_STRENGTHENED': str(len(strengthened)), 'N_KNOWN': str(len(known)),
                 'N_FIX_COMMITS': str(len(commits))}.items():
        text = text.replace(k, v)
    with open(os.path.join(VERIF, 'DESIGN.md'), 'w', encoding='utf-8') as f:
        f.write(text)
    print('DESIGN.md: %d lines' % sum(x.count('\n') + 1 for x in out))


if __name__ == '__main__':
    main()
