#!/bin/bash
# Re-runs every seeded change (seeded/<id>-<X>/patch.diff) through the check of its property in a scratch
# worktree of /repo's HEAD (tools/seedtest.py).  One line per seed.  usage: tools/seed_regress.sh [seed-dir ...]
cd "$(dirname "$0")/.." || exit 2
./setup.sh > /dev/null 2>&1
seeds=("$@")
[ ${#seeds[@]} -eq 0 ] && seeds=(seeded/*)
for d in "${seeds[@]}"; do
  id=$(basename "$d"); p=${id%%-*}
  out=$(tools/seedtest.py "$d" "$p" 2>&1 | grep -v WARNING)
  demo0=$(echo "$out" | grep -c 'demo on unchanged tree: exit 0')
  demo1=$(echo "$out" | grep -c 'demo on changed tree: exit 1')
  tests=$(echo "$out" | grep -o '[0-9]* failed, [0-9]* passed' | head -1)
  rc=$(echo "$out" | grep -o "^$p exit=[0-9]*" | head -1)
  viol=$(echo "$out" | grep -c 'VIOLATION property')
  nofail=$(echo "$out" | grep -c 'no-failing-input-found')
  apply=$(echo "$out" | grep -c 'PATCH DOES NOT APPLY')
  echo "$id demo_ok=$((demo0*demo1)) tests='$tests' $rc violation=$viol no_failing_input=$nofail patch_rejected=$apply"
done
