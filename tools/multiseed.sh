#!/bin/bash
# quick tier of every registered check on the unchanged tree for several seeds (used in the background through `vp run`)
cd "$(dirname "$0")/.." || exit 2
./setup.sh > /dev/null 2>&1
for s in ${SEEDS:-1 2 3}; do
  for p in $(/venv/bin/python -c "import json; print(' '.join(c['property_id'] for c in json.load(open('MANIFEST.json'))['checks']))"); do
    VERIF_SEED=$s ./check $p --tier quick 2>&1 | grep -v "WARNING\|KNOWN-FINDING" | tail -2
  done
done
